"""
`graphstr` / `graphstr-bad` / `anno` suites (DESIGN §5): ASTs of the documented graph grammar, their
rendering, their denotation (independent recursive descent, used by the oracles), multiplier
expansion, and malformed variants.

AST: a chain is a list of items
    {'name', 'anno': [entries], 'order': bond order to the previous node / anchor (1 default),
     'rings': [[id, order, opening]], 'branches': [chain, ...], 'mult': n, 'morder': order between
     copies of a multiplied anchor+branch unit}
"""
import itertools

import networkx as nx

SYM = {0: '.', 1: '', 2: '=', 3: '#', 4: '$'}
SYMX = {0: '.', 1: '-', 2: '=', 3: '#', 4: '$'}   # explicit single bond


def rmark(rid):
    return str(rid) if rid < 10 else '%%%d' % rid


def node_text(it):
    return '[#%s]' % ';'.join([it['name']] + list(it.get('anno', [])))


def render(chain, explicit=None, extra=None):
    """string of a chain; `explicit` (rng) makes single bonds explicit ('-') at random"""
    def sym(o):
        if o == 1 and explicit is not None and explicit.random() < 0.15:
            return '-'
        return SYM[o]
    s = ''
    for i, it in enumerate(chain):
        if i > 0:
            s += sym(it['order'])
        s += node_text(it)
        # %nn markers last: a digit after %nn would be read as part of it
        rings = sorted(it.get('rings', []), key=lambda r: r[0] >= 10)
        for rid, ro, opening in rings:
            # a closing marker may repeat the symbol of its opening marker ('=1 … =1', as in SMILES): written for a
            # third of the closings, chosen from the AST alone so that no random stream shifts (seeded change C04-14)
            s += (sym(ro) if opening else (SYM[ro] if (rid + i) % 3 == 0 else '')) + rmark(rid)
        if extra is not None:
            s += extra(it)
        if (it.get('mult', 1) > 1 or it.get('show1')) and not it['branches']:
            s += '|%d' % it['mult']
        if it.get('nmult', 1) > 1 and it['branches']:
            s += '|%d' % it['nmult']           # a multiplied node whose last copy anchors the branches
        for b in it['branches']:
            s += sym(b[0]['order']) + '(' + render(b, explicit, extra) + ')'
        if (it.get('mult', 1) > 1 or it.get('show1')) and it['branches']:
            s += sym(it.get('morder', 1)) + '|%d' % it['mult']
    return s


def denote(chain):
    """the graph a chain denotes: nodes numbered in order of appearance"""
    g = nx.Graph()
    ring = {}

    def go(ch, anchor):
        prev = anchor
        for it in ch:
            n = len(g)
            g.add_node(n, name=it['name'], anno=list(it.get('anno', [])))
            if prev is not None:
                g.add_edge(prev, n, order=it['order'])
            for rid, ro, opening in it.get('rings', []):
                if rid in ring:
                    m, o = ring.pop(rid)
                    g.add_edge(m, n, order=o)
                else:
                    ring[rid] = (n, ro)
            for b in it['branches']:
                go(b, n)
            prev = n
    go(chain, None)
    return g


def expand(chain):
    """write every multiplied unit out (C05): a node n times (first copy keeps the incoming order, later
    copies are joined by order 1), an anchor with its branches n times (copies joined by `morder`)"""
    out = []
    for it in chain:
        brs = [expand(b) for b in it['branches']]
        if it['branches']:
            for k in range(it.get('nmult', 1) - 1):
                out.append(dict(name=it['name'], anno=list(it.get('anno', [])), order=it['order'] if k == 0 else 1, branches=[],
                                mult=1, morder=1, rings=[]))
        for k in range(it.get('mult', 1)):
            o = it['order'] if k == 0 else (it.get('morder', 1) if it['branches'] else 1)
            if k == 0 and it['branches'] and it.get('nmult', 1) > 1:
                o = 1
            out.append(dict(name=it['name'], anno=list(it.get('anno', [])), order=o, branches=[list(b) for b in brs],
                            mult=1, morder=1, rings=list(it.get('rings', [])) if it.get('mult', 1) == 1 else []))
    return out


def count_nodes(chain):
    return sum(1 + sum(count_nodes(b) for b in it['branches']) for it in chain)


def has_mult(chain):
    return any(it.get('mult', 1) > 1 or (it.get('nmult', 1) > 1 and it['branches']) or any(has_mult(b) for b in it['branches'])
               for it in chain)


def flat_items(chain):
    for it in chain:
        yield it
        for b in it['branches']:
            yield from flat_items(b)


ANNOS = [[], [], [], ['q=1'], ['+1'], ['-0.25'], ['w=0.5'], ['0', '0.5'], ['q=1', 'w=2'], ['w=2', 'q=1'], ['mass=72'],
         ['q=1e-1'], ['k=v', 'q=.5'], ['1', 'c=x'],
         # free one-letter symbols (everything but the reserved q and w) and free words are kept verbatim
         ['m=72'], ['m=heavy', 'q=1'], ['n=3', 'p=x'], ['a=1', 'e=2'], ['r=abc'], ['z=0.5', 'w=2'], ['s=S'], ['t=1', 'u=v', 'q=-1'],
         ['name=x'], ['type=P5', 'm=a1']]


def rnd_chain(rng, depth, maxlen, pm=0.0, names='ABC', annos=False, orders=(1, 1, 1, 0, 2, 3, 4), pb=0.35):
    ch = []
    for _ in range(rng.randint(1, maxlen)):
        br = []
        if depth > 0:
            while rng.random() < pb and len(br) < 3:
                br.append(rnd_chain(rng, depth - 1, 2, pm, names, annos, orders, pb))
        mult = rng.choice([2, 3, 3, 4, 1]) if rng.random() < pm else 1
        if mult > 1 and not br and rng.random() < 0.08:
            mult = rng.choice([10, 11, 12, 20])          # more than one digit
        show1 = mult == 1 and pm > 0 and rng.random() < 0.03
        ch.append(dict(name=rng.choice(names) + (rng.choice(['', '', '1', 'x']) if annos else ''), show1=show1,
                       anno=list(rng.choice(ANNOS)) if annos else [],
                       order=rng.choice(orders), branches=br, mult=mult,
                       morder=rng.choice([1, 1, 2, 0]), rings=[],
                       nmult=rng.choice([2, 3]) if (br and pm > 0 and rng.random() < 0.12) else 1))
    return ch


def add_rings(rng, chain, nrings, big_ids=False):
    """add ring bonds between nodes that are not adjacent and not yet joined; ids are re-used after closing"""
    g = denote(chain)
    items = list(flat_items(chain))
    if len(items) < 3:
        return 0
    pairs = [(a, b) for a, b in itertools.combinations(range(len(items)), 2) if not g.has_edge(a, b)]
    rng.shuffle(pairs)
    chosen = []
    for a, b in pairs:
        if len(chosen) >= nrings:
            break
        if not any({a, b} == {x, y} for x, y, _ in chosen):
            chosen.append((a, b, rng.choice([1, 1, 2, 0, 3])))
    # assign ids in order of appearance: lowest free id (or a random free one)
    open_at = {}
    events = {}
    for a, b, o in chosen:
        events.setdefault(a, []).append(('open', (a, b, o)))
        events.setdefault(b, []).append(('close', (a, b, o)))
    in_use = {}
    for idx in range(len(items)):
        evs = events.get(idx, [])
        # closings first so that ids can be re-used on the same node only after release
        for kind, e in evs:
            if kind == 'close':
                rid = in_use.pop(e)
                items[idx]['rings'].append([rid, e[2], False])
        for kind, e in evs:
            if kind == 'open':
                # (an id released by a closing on this very node may be taken again at once: 'C1CC11CC1')
                reopen = rng.random() < 0.5
                used = set(in_use.values()) | {r[0] for r in items[idx]['rings'] if r[2] or not reopen}
                pool = [i for i in (range(1, 10) if not big_ids else list(range(1, 10)) + [10, 12, 25, 99, 123]) if i not in used]
                if not pool:
                    pool = [i for i in range(10, 60) if i not in used]
                rid = rng.choice(pool) if rng.random() < 0.5 else min(pool)
                in_use[e] = rid
                items[idx]['rings'].append([rid, e[2], True])
    for it in items:
        if it['rings'] and (it.get('mult', 1) > 1 or it.get('show1') or it.get('nmult', 1) > 1):
            it['mult'] = 1        # ring markers on multiplied nodes are outside the grammar
            it['show1'] = False
            it['nmult'] = 1
    return len(chosen)


def graph_case(rng, maxnodes=12, rings=True, annos=False, mult=False):
    while True:
        ch = rnd_chain(rng, rng.choice([0, 1, 2, 3]), rng.randint(1, 5), pm=0.25 if mult else 0.0, annos=annos)
        if count_nodes(ch) <= maxnodes:
            break
    nr = 0
    if rings and rng.random() < 0.6:
        nr = add_rings(rng, ch, rng.randint(1, 4), big_ids=rng.random() < 0.3)
    s = '{' + render(ch, explicit=rng) + '}'
    return {'kind': 'graph', 's': s, 'ast': ch, 'nrings': nr}


def same_graph(g, ref, names_only=True):
    """exact equality: numbering, names, edges, orders"""
    if sorted(g.nodes) != sorted(ref.nodes):
        return f'nodes {sorted(g.nodes)[:12]} vs {sorted(ref.nodes)[:12]}'
    for n in ref.nodes:
        if g.nodes[n].get('fragname') != ref.nodes[n]['name']:
            return f'node {n} is named {g.nodes[n].get("fragname")!r}, the grammar denotes {ref.nodes[n]["name"]!r}'
    ea = {frozenset(e[:2]): e[2] for e in g.edges(data='order')}
    eb = {frozenset(e[:2]): e[2] for e in ref.edges(data='order')}
    if ea != eb:
        only_a = sorted((sorted(k), v) for k, v in ea.items() if eb.get(k) != v)[:4]
        only_b = sorted((sorted(k), v) for k, v in eb.items() if ea.get(k) != v)[:4]
        return f'edges differ: read {only_a}, denoted {only_b}'
    return None


def iso_graph(g, ref):
    return nx.is_isomorphic(g, ref, node_match=lambda a, b: a.get('fragname') == b.get('name'),
                            edge_match=lambda a, b: a.get('order') == b.get('order'))


# ----------------------------------------------------------------------------------------------
#  malformed stream
# ----------------------------------------------------------------------------------------------
ALPHABET = '[]#()|.=-$%;,{}0123456789ABab+ '


def mutate(rng, s):
    k = rng.choice(['del', 'ins', 'sub', 'dup', 'swap', 'trunc'])
    i = rng.randrange(len(s))
    if k == 'del':
        return s[:i] + s[i + 1:]
    if k == 'ins':
        return s[:i] + rng.choice(ALPHABET) + s[i:]
    if k == 'sub':
        return s[:i] + rng.choice(ALPHABET) + s[i + 1:]
    if k == 'dup':
        j = min(len(s), i + rng.randint(1, 4))
        return s[:j] + s[i:j] + s[j:]
    if k == 'swap' and i + 1 < len(s):
        return s[:i] + s[i + 1] + s[i] + s[i + 2:]
    return s[:i]


def anno_string(rng):
    # (keys are case sensitive: 'Q', 'W', 'Mass', 'resName' are free keys, kept verbatim)
    keys = ['q', 'w', 'fragname', 'x', 'mass', 'k', 'charge', 'weight', 'kwargs', '', 'Q', 'W', 'Mass', 'resName',
            'm', 'n', 'p', 'r', 'a', 'e', 's', 't', 'z', 'c']
    nums = ['1', '+1', '-0.25', '1e-1', '.5', '5.', '0', '1e3', '-2', '0.5', '2']
    bad = ['a', 'abc', '1=2', '', '--1', '1e', 'x1', '.']
    entries = []
    for _ in range(rng.randint(0, 4)):
        r = rng.random()
        v = rng.choice(nums) if rng.random() < 0.8 else rng.choice(bad)
        if r < 0.4:
            entries.append(v)
        elif r < 0.9:
            entries.append(rng.choice(keys) + '=' + v)
        else:
            entries.append(rng.choice(keys) + '=' + v + '=' + rng.choice(nums))
    return ';'.join(entries)
