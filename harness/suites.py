"""
Correspondence suites shared by several properties (DESIGN §5).
"""
import json

import gen_mol
import impl
import lib


def fingerprint_steps(steps):
    """structural fingerprint of a resolution: sizes and outcomes, not names"""
    fp = []
    for st in steps:
        if st['result'] == 'ok' and 'fine' in st:
            fp.append((len(st['fine']['n']), len(st['fine']['e']),
                       sum(1 for e in st['fine']['e'] if e[3]), len(st['meta']['nodes']) if 'meta' in st else -1))
        else:
            fp.append(st['result'])
    return lib.stable_hash(fp)


def compare_step(ctx, suite, case, st):
    """model vs implementation for one recorded resolution step; returns True when they agree"""
    if 'unsupported' in st:
        ctx.skip_unsupported()
        return True
    try:
        req = impl.model_request(st)
    except lib.Unsupported:
        ctx.skip_unsupported()
        return True
    arom_raised = None
    if st['arom_calls'] and st['arom_calls'][0]['raised']:
        arom_raised = st['arom_calls'][0]['raised']
        req['arom'] = None
    rep = ctx.model(req)
    if 'fail' in rep:
        raise RuntimeError('driver protocol failure: ' + rep['fail'])
    if st['result'] == 'ok':
        if 'ok' not in rep:
            ctx.disagree(suite, case, f'level {st["level"]}: implementation returned a graph, model raises {rep.get("err")}')
            return False
        m = rep['ok']
        # the hypothesis the C10/C12 theorems make about templates (distinct keys, bonds between the template's
        # own atoms; CGV.C10.fragsWFb_iff) is evaluated by the model on the templates the real reader produced
        if rep.get('hyp', {}).get('frags_wf') is False:
            ctx.disagree(suite, case, f'level {st["level"]}: the fragment templates handed to the resolver do not meet '
                                      'the hypothesis FragsWF of the C10/C12 theorems (duplicate keys or a dangling bond)')
            return False
        ctx.feature('hyp:frags-wf')
        d = lib.diff_obj(lib.model_mol_canon(m['fine']), st['fine'], 'fine')
        if d is None:
            d = lib.diff_obj(m['coarse'], st['coarse'], 'coarse')
        if d is None and st['arom_calls']:
            d = lib.diff_obj(lib.model_mol_canon(m['pre']), st['arom_calls'][0]['pre'], 'pre-hydrogen graph')
        if d:
            ctx.disagree(suite, case, f'level {st["level"]}: {d}')
            return False
        ctx.feature('agree:ok')
        return True
    # the implementation raised
    if arom_raised is not None:
        # the external aromaticity correction rejected the graph: the model can only be compared up
        # to the graph handed to it
        if 'ok' in rep or rep.get('phase') == 'B':
            pre = rep['ok']['pre'] if 'ok' in rep else rep.get('pre')
            d = lib.diff_obj(lib.model_mol_canon(pre), st['arom_calls'][0]['pre'], 'pre-hydrogen graph') if pre else None
            if d:
                ctx.disagree(suite, case, f'level {st["level"]}: {d}')
                return False
            ctx.feature('agree:arom-raised')
            return True
        ctx.disagree(suite, case, f'level {st["level"]}: model raises {rep.get("err")} before aromaticity correction')
        return False
    if rep.get('err') == st['result']:
        ctx.feature('agree:err-' + st['result'])
        return True
    ctx.disagree(suite, case, f'level {st["level"]}: implementation raises {st["result"]} ({st.get("message", "")[:80]}), '
                              f'model gives {"a graph" if "ok" in rep else rep.get("err")}')
    return False


def run_resolve_case(ctx, suite, case, oracle=None, compare=True):
    """construct the resolver for a case, step through all levels, compare with the model and hand
    the recorded steps to the property oracle"""
    kw = {'last_all_atom': case.get('all_atom', True), 'legacy': case.get('legacy', True)}
    if 'ctor' not in case and isinstance(case, dict) and compare and suite not in ('corpus', 'replay', 'finding'):
        # the three constructors are interchangeable (C12): most cases go through the whole string, a deterministic
        # share through the other entry points — the base graph handed over as a graph, the libraries read separately,
        # libraries whose template graphs carry other keys in another insertion order
        h = int(lib.stable_hash([case['s'], 'ctor'])[:8], 16)
        r = h % 20
        # (re-keyed templates only where the oracle does not speak in the reader's template keys / atom names)
        case['ctor'] = 'graph' if r in (0, 1) else 'fragment-dicts' if r in (2, 3) else \
            'reordered' if (r == 4 and ctx.prop in ('C02', 'C12')) else \
            'graph-reinserted' if (r in (5, 6) and (ctx.prop in ('C12', 'C02') or
                                                     (ctx.prop == 'C03' and case.get('unique_labels') and case.get('legacy', True)))) \
            else 'string'
    ctx.feature('constructor:' + case.get('ctor', 'string'))
    try:
        try:
            resolver = impl.resolver_for(case, **kw)
        except lib.Unsupported:
            case['ctor'] = 'string'
            resolver = impl.resolver_for(case, **kw)
    except Exception as err:   # noqa: BLE001
        ctx.count(suite, nontrivial=False)
        ctx.feature('ctor-' + lib.err_class(err))
        if oracle:
            oracle(ctx, case, None, ('ctor', lib.err_class(err)))
        return None
    try:
        steps = impl.run_steps(resolver)
    except RecursionError:
        raise
    except Exception as err:    # noqa: BLE001 - the resolver's internals are not what the harness expects
        ctx.count(suite, nontrivial=False)
        ctx.disagree(suite, case, f'the harness could not drive the resolver level by level: {lib.err_class(err)} {str(err)[:80]}')
        if oracle:
            oracle(ctx, case, None, ('drive', lib.err_class(err)))
        return None
    ctx.count(suite, fingerprint_steps(steps), nontrivial=any(s['result'] == 'ok' and s.get('fine', {}).get('e') for s in steps),
              sample=case['s'])
    if compare and not ctx.oracle_only:
        for st in steps:
            compare_step(ctx, suite, case, st)
    if case.get('caller_names') and steps and steps[0]['result'] == 'ok':
        # the base graph was handed over as a graph object: the coarse graph of the first step is THAT graph — the same
        # keys under the same names, whatever order its nodes were put in (bonds, memberships and names of the result are
        # read against the caller's graph)
        got = {str(k): d.get('fragname') for k, d in steps[0]['meta_graph'].nodes(data=True)}
        if got != case['caller_names']:
            diff = sorted(k for k in set(got) | set(case['caller_names']) if got.get(k) != case['caller_names'].get(k))
            ctx.fail(slim(case), f'from_graph: the coarse graph of the result is not the graph that was handed over '
                                 f'(nodes {diff[:5]}: {[got.get(k) for k in diff[:5]]} instead of '
                                 f'{[case["caller_names"].get(k) for k in diff[:5]]})')
    if oracle:
        oracle(ctx, case, steps, None)
    return steps


def level_definitions_oracle(ctx, case, steps):
    """the fragment library a level is resolved with is the one written for that level: block i+1 of the
    string, read on its own (the same fragment name may be defined differently at different levels)"""
    import re
    from cgsmiles.read_fragments import read_fragments
    if not steps or not isinstance(case.get('s'), str) or case.get('ctor') == 'reordered':
        return
    blocks = re.findall(r"\{[^\}]+\}", case['s'])
    for st in steps:
        if 'frags' not in st or st['level'] + 1 >= len(blocks):
            continue
        try:
            with lib.quiet():
                own = read_fragments(blocks[st['level'] + 1], all_atom=st['all_atom'])
            want = impl.frags_request(own)
        except Exception:    # noqa: BLE001 - unreadable on its own: nothing to compare with
            continue
        if want != st['frags']:
            have_names = [n for n, _ in st['frags']]
            diff = [n for n, g in want if [n, g] not in st['frags']]
            ctx.fail(slim(case), f'level {st["level"]}: the resolver uses fragment definitions that differ from the ones '
                                 f'written for this level (names in use {have_names[:6]}, differing or missing {diff[:6]})')


def slim(case):
    """cases as stored in replays / samples: drop bulky derived fields"""
    return {k: v for k, v in case.items() if k not in ('part', 'appearance')} if isinstance(case, dict) else case


# ----------------------------------------------------------------------------------------------
#  graph reader / annotation parser
# ----------------------------------------------------------------------------------------------
def canon_attr_val(v):
    if isinstance(v, bool):
        return ['o', repr(v)]
    if isinstance(v, (int, float)):
        return ['f', repr(float(v))]
    if isinstance(v, str):
        return ['s', v]
    return ['o', repr(v)]


def model_attr_val(j):
    from fractions import Fraction
    if 's' in j:
        return ['s', j['s']]
    m, e = j['n']
    return ['f', repr(float(Fraction(m) * Fraction(10) ** e))]


def dump_cg(g):
    nodes = [[k, sorted([a, canon_attr_val(v)] for a, v in d.items())] for k, d in g.nodes(data=True)]
    edges = sorted([min(a, b), max(a, b), d.get('order')] for a, b, d in g.edges(data=True))
    return {'n': nodes, 'e': edges}


def model_cg(j):
    return {'n': [[k, sorted([a, model_attr_val(v)] for a, v in attrs)] for k, attrs in j['n']],
            'e': sorted(j['e'])}


def run_read_case(ctx, suite, s, oracle=None, case=None, nontrivial=True):
    """read_cgsmiles(s) on the implementation and on the model; exact comparison incl. error class"""
    from cgsmiles.read_cgsmiles import read_cgsmiles
    case = case if case is not None else {'kind': 'graph', 's': s}
    try:
        with lib.quiet():
            g = read_cgsmiles(s)
        got = ('ok', g)
    except RecursionError:
        raise
    except Exception as err:    # noqa: BLE001
        got = ('err', lib.err_class(err))
    fp = lib.stable_hash([got[0], got[1] if got[0] == 'err' else [g.number_of_nodes(), g.number_of_edges(),
                                                                    sorted(o for *_, o in g.edges(data='order') if o is not None)],
                          sum(map(s.count, '()|%'))])
    if case.get('fault'):
        fp = lib.stable_hash([case['fault'], s])
    ctx.count(suite, fp, nontrivial=nontrivial and len(s) > 6, sample=s)
    ctx.feature(f'{suite}:{got[0] if got[0] == "ok" else "err-" + got[1]}')
    if not ctx.oracle_only:
        rep = ctx.model({'op': 'readcg', 's': s})
        if 'fail' in rep:
            raise RuntimeError('driver protocol failure: ' + rep['fail'])
        if rep.get('err') == 'unsupported':
            ctx.skip_unsupported()
        elif got[0] == 'ok':
            if 'ok' not in rep:
                ctx.disagree(suite, case, f'implementation reads a graph, model raises {rep.get("err")}')
            else:
                d = lib.diff_obj(model_cg(rep['ok']), dump_cg(g), 'graph')
                if d:
                    ctx.disagree(suite, case, d)
        else:
            if 'ok' in rep or rep.get('err') != got[1]:
                ctx.disagree(suite, case, f'implementation raises {got[1]}, model: {"a graph" if "ok" in rep else rep.get("err")}')
    if oracle:
        oracle(ctx, case, got)
    return got


def run_readfrag_case(ctx, suite, name, text, case):
    """one coarse fragment definition: strip_bonding_descriptors + read_fragment_cgsmiles on the implementation,
    `readFragCG` on the model; the node dictionaries the implementation ends with are rebuilt from the model's
    three parts exactly as read_fragment_cgsmiles attaches them"""
    from cgsmiles.read_fragments import strip_bonding_descriptors
    from cgsmiles.cgsmiles_utils import read_fragment_cgsmiles
    try:
        with lib.quiet():
            smile, bonding, _, attrs = strip_bonding_descriptors(text)
            g = read_fragment_cgsmiles(smile, name, bonding, attrs)
        got = ('ok', dump_cg(g))
    except RecursionError:
        raise
    except (StopIteration, RuntimeError):
        got = ('err', 'other')
    except Exception as err:    # noqa: BLE001
        got = ('err', lib.err_class(err))
    ctx.count(suite, lib.stable_hash([name, text]), nontrivial='[' in text[1:], sample=text)
    ctx.feature(f'{suite}:{got[0] if got[0] == "ok" else "err-" + got[1]}')
    if ctx.oracle_only:
        return got
    rep = ctx.model({'op': 'readfragcg', 's': text})
    if 'fail' in rep:
        raise RuntimeError('driver protocol failure: ' + rep['fail'])
    if rep.get('err') == 'unsupported':
        ctx.skip_unsupported()
        return got
    if got[0] == 'err':
        if 'ok' in rep or rep.get('err') != got[1]:
            ctx.disagree(suite, case, f'fragment {text!r}: implementation raises {got[1]}, model: '
                                      f'{"a fragment" if "ok" in rep else rep.get("err")}')
        return got
    if 'ok' not in rep:
        ctx.disagree(suite, case, f'fragment {text!r}: implementation reads it, model raises {rep.get("err")}')
        return got
    m = rep['ok']
    mg = model_cg(m['g'])
    bond = {k: v for k, v in m['bonding']}
    extra = {k: [[a, model_attr_val(v)] for a, v in d] for k, d in m['attrs']}
    nodes = []
    for k, attrs in mg['n']:
        d = {a: v for a, v in attrs}
        if 'fragname' in d:
            d['atomname'] = d['fragname']
        if k in bond:
            d['bonding'] = ['o', repr(list(bond[k]))]
        d['fragname'] = ['s', name]
        d['fragid'] = ['f', '0.0']
        d['w'] = ['f', '1.0']
        for a, v in extra.get(k, []):
            d[a] = v
        nodes.append([k, sorted([a, v] for a, v in d.items())])
    diff = lib.diff_obj({'n': nodes, 'e': mg['e']}, got[1], 'fragment')
    if diff:
        ctx.disagree(suite, case, f'fragment {text!r}: ' + diff)
    return got


# ----------------------------------------------------------------------------------------------
#  writer
# ----------------------------------------------------------------------------------------------
def write_request(g, smiles_format=False, default_element='*', name_attr='fragname'):
    """the driver request for write_graph(g): spanning tree and ring-edge order as the implementation
    derives them (networkx / CPython set order are external)"""
    import networkx as nx
    from pysmiles.smiles_helper import format_atom
    start = min(g)
    succ = nx.dfs_successors(g, source=start)
    tree = set()
    for a, bs in succ.items():
        for b in bs:
            tree.add(frozenset((a, b)))
    total = set(map(frozenset, g.edges))
    ring = [tuple(e) for e in list(total - tree)]
    nodes = []
    for k, d in g.nodes(data=True):
        text = format_atom(g, k, default_element) if smiles_format else d[name_attr]
        nodes.append([k, text, list(d.get('bonding', []) or []), bool(d.get('aromatic', False))])
    edges = [[a, b, lib.order2(d.get('order', 1))] for a, b, d in g.edges(data=True)]
    for e in ring:
        if len(e) != 2:
            raise lib.Unsupported('self loop')
    return {'op': 'write', 'smiles': smiles_format, 'nodes': nodes, 'edges': edges,
            'succ': [[a, list(bs)] for a, bs in succ.items()], 'ring': [list(e) for e in ring]}


def run_write_case(ctx, suite, g, case, smiles_format=False, name_attr='fragname'):
    """write_graph on the implementation and on the model; returns ('ok', text) / ('err', class)"""
    from cgsmiles.write_cgsmiles import write_graph
    try:
        with lib.quiet():
            got = ('ok', write_graph(g, smiles_format=smiles_format, name_attr=name_attr))
    except Exception as err:   # noqa: BLE001
        got = ('err', lib.err_class(err))
    if not ctx.oracle_only:
        try:
            req = write_request(g, smiles_format, name_attr=name_attr)
        except (lib.Unsupported, KeyError, ValueError):
            ctx.skip_unsupported()
            return got
        rep = ctx.model(req)
        if 'fail' in rep:
            raise RuntimeError('driver protocol failure: ' + rep['fail'])
        mod = ('ok', rep['ok']) if 'ok' in rep else ('err', rep.get('err'))
        if mod != got:
            ctx.disagree(suite, case, f'write_graph: implementation {got}, model {mod}')
    return got
