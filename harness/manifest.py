#!/usr/bin/env python3
"""Regenerates /verif/MANIFEST.json from the table below (kept here so the file is always valid)."""
import json
import os

VERIF = os.path.dirname(os.path.dirname(os.path.abspath(__file__)))

TECH = 'Lean 4 theorem about an executable model + translator/correspondence tie to the source'

CLAIMED = {
    'C03': {
        'text': ('Proved in Lean 4 for every base-graph edge list, every initial descriptor state and both conventions: '
                 'characterisation of compatible (the function translated from resolve.py each run is proved equal to the '
                 'model\'s), bonds only for listed edges of order >= 1, never more than the order, every bond from a '
                 'compatible pair both atoms carried, conservation of descriptors (none used twice), exactly `order` '
                 'bonds under the dedicated-unique-pair hypothesis (L-restore), bond order rule. The model of the '
                 'resolution step is tied to the code by exact differential execution on generated descriptions.'),
        'note': ('Trusted: Lean kernel (axioms propext, Classical.choice, Quot.sound only), translate.py, the '
                 'correspondence harness and its generators; pysmiles.correct_aromatic_rings is a recorded parameter; '
                 'networkx iteration order enters as input. The final "1.5 inside aromatic rings" clause rests on that '
                 'external call.'),
        'design': '§7 C03',
    },
}

PENDING_REASON = ('not claimed yet: model/theorems for this property are still being built in this round '
                  '(DESIGN §11 staging); no check is registered until it decides the property soundly')

ALL = ['C%02d' % i for i in range(1, 21)]


def main():
    checks = []
    for pid in ALL:
        if pid not in CLAIMED:
            continue
        c = CLAIMED[pid]
        checks.append({
            'property_id': pid,
            'quick_cmd': f'./check {pid} quick',
            'thorough_cmd': f'./check {pid} thorough',
            'evidence_file': f'evidence/{pid}.json',
            'replay_cmd_template': f'./check {pid} --replay {{path}}',
            'engine': 'lean4-cgv',
            'level_claimed': {'category': 'proof', 'text': c['text'], 'design_ref': c['design']},
            'level_note': c['note'],
            'technique': c.get('technique', TECH),
        })
    manifest = {
        'version': 1,
        'setup_cmd': './setup.sh',
        'hooks': {
            'guard': 'CGSMILES_VERIF',
            'enable': 'no source hooks: the harness observes external calls by wrapping module attributes in its own process; '
                      'CGSMILES_VERIF=1 is exported by ./check but nothing in /repo reads it',
            'baseline_off_cmd': 'cd /repo && /venv/bin/python -m pytest -ra -q -p no:cacheprovider --timeout=900 --continue-on-collection-errors',
            'source_commits': [],
            'add_only': True,
        },
        'engines': [{
            'name': 'lean4-cgv',
            'path': 'lean/',
            'serves_properties': sorted(CLAIMED),
            'kind_free_text': 'Lean 4 project CGV: generated tables/leaf functions (translator), hand-written executable '
                              'models, lemma library, property theorems, axiom audits, compiled line-protocol driver used '
                              'by the Python correspondence harness (harness/)',
        }],
        'checks': checks,
        'not_applicable': [{'property_id': pid, 'reason': PENDING_REASON} for pid in ALL if pid not in CLAIMED],
        'notes': 'fix: commits in /repo repair genuine defects found by these checks; see known-findings.txt and DESIGN.md §6',
    }
    with open(os.path.join(VERIF, 'MANIFEST.json'), 'w') as fh:
        json.dump(manifest, fh, indent=1)
    print('MANIFEST.json written:', len(checks), 'checks,', len(manifest['not_applicable']), 'not applicable')


if __name__ == '__main__':
    main()
