#!/usr/bin/env python3
"""Regenerates /verif/MANIFEST.json from the table below (kept here so the file is always valid)."""
import json
import os

VERIF = os.path.dirname(os.path.dirname(os.path.abspath(__file__)))

TECH = 'Lean 4 theorem about an executable model + translator/correspondence tie to the source'

RESOLVE_NOTE = ('Trusted: Lean kernel (axioms propext, Classical.choice, Quot.sound only), translate.py (a generated piece the '
                'translator cannot read falls back to its reference model, tied by the gen_tie correspondence), the correspondence '
                'harness and its generators; pysmiles (SMILES reading, correct_aromatic_rings) and networkx iteration order '
                'enter the model as recorded parameters. ')

CLAIMED = {
    'C01': {
        'text': ('Lean 4: L-restore — for every description whose descriptors are uniquely labelled complementary pairs '
                 'and whose base-graph orders count the cut bonds, the bond loop re-creates exactly the cut bonds for '
                 'every ordering of base-graph edges/atoms/descriptors; bond-order rule; uncut description makes no bond; '
                 'hydrogen completion reaches the smallest fitting valence. The one-step model is tied to the code by '
                 'exact differential execution on generated molecules x partitions x renderings; the end-to-end '
                 'isomorphism (incl. pysmiles parsing and aromaticity) is checked by the oracle on the same inputs.'),
        'note': RESOLVE_NOTE + 'Partial by nature: aromatic perception is pysmiles\' (contracts A0-A2).',
        'design': '§7 C01',
    },
    'C02': {
        'text': ('Lean 4: instantiation appends an attribute-faithful copy of the template (atoms in template order, '
                 'template bonds between the copies), every fine node records exactly one instantiated coarse node, '
                 'membership sets are exactly {n | k in fragid n} and cover the graph, renumbering keeps membership/names. '
                 'For EVERY step the resolver model can take (C02_step_cover: any base graph, templates with distinct keys and '
                 'closed bonds, any recorded aromaticity answer): after a successful step every fine node records at least one '
                 'coarse node, only base-graph nodes that have a fragment, and the coarse graph lists it under each of them — '
                 'carried through bond creation, squashing (memberships concatenated, squash_fragok / squash_closed), the '
                 'aromaticity patch, hydrogen completion (a new hydrogen has exactly its atom as first neighbour and takes its '
                 'membership: invariant HInv over add_explicit_hydrogens, inheritH_fragok), sorting, stereo annotation, naming. '
                 'Model tied to the code by exact differential execution of every resolution step.'),
        'note': RESOLVE_NOTE + 'Membership/cover is proved through the whole step; that the heavy atoms of a coarse node remain an isomorphic copy of the template through bonds/squash/hydrogens is validated by the oracle, not proved.',
        'design': '§7 C02',
    },
    'C03': {
        'text': ('Proved in Lean 4 for every base-graph edge list, every initial descriptor state and both conventions: '
                 'characterisation of compatible (the function translated from resolve.py each run is proved equal to the '
                 'model\'s), bonds only for listed edges of order >= 1, never more than the order, every bond from a '
                 'compatible pair both atoms carried, conservation of descriptors (none used twice), exactly `order` '
                 'bonds under the dedicated-unique-pair hypothesis (L-restore), bond order rule. About the molecule itself '
                 '(C03_step_adjacency, every step): after bond creation two atoms are bonded iff they were bonded inside a fragment '
                 'copy or a bond was created for them from a descriptor pair — nothing else appears, nothing disappears. The model of the '
                 'resolution step is tied to the code by exact differential execution on generated descriptions.'),
        'note': RESOLVE_NOTE + 'The final "1.5 inside aromatic rings" clause rests on pysmiles.',
        'design': '§7 C03',
    },
    'C06': {
        'text': ('Lean 4 on the level-loop model: manual stepping = resolve_iter, resolve_all = last of resolve_iter, the '
                 'results form a chain (coarse graph of step i+1 = fine graph of step i, names switched), every step is '
                 'the one-step model so the per-step theorems hold at every level — made explicit by C06_guarantees_every_step: '
                 'for every list of levels with well-formed templates and an aromaticity correction that changes flags and '
                 'orders only (the recorded contract of the external call), every element of resolve_iter has fine keys '
                 'exactly 0..n-1 and every fine node is a member of, and listed under, at least one coarse node of that step; '
                 'L-restore applies level-wise. Memberships compose (C06_every_atom_stems_from_base): every atom of every level '
                 'traces, through the membership lists of the successive levels, down to a node of the original base graph; the '
                 'coarse graph of each later level has exactly the keys of the previous fine graph in its order (C06_next_coarse_keys). '
                 'End-to-end equivalence with the flattened description is validated by correspondence + oracle on '
                 'generated hierarchical groupings (partial: not proved).'),
        'note': RESOLVE_NOTE,
        'design': '§7 C06',
    },
    'C09': {
        'text': ('Lean 4 on rebuild_h_atoms\' model: for every graph, every non-hydrogen atom whose bonds fit a listed '
                 'valence ends with bond orders summing exactly to the smallest fitting valence (valence lists = pysmiles\' '
                 'table regenerated each run, proved ascending by kernel evaluation); truncation for half-integral sums; '
                 'nothing added beyond the largest valence. For EVERY all-atom step of the resolver model (C09_step_complete: any '
                 'base graph, templates with distinct keys and closed bonds, any recorded aromaticity answer) the valence '
                 'reached by completion is the valence the atom has in the returned fine graph: the inheritance loop, the '
                 'stereo annotation and the naming change no bond, and the renumbering is injective on keys so that every '
                 'atom keeps its bond-order sum (sortNodes_bonds2). Tied to the code by exact differential execution of resolver '
                 'and sampler outputs incl. hydrogens and inherited attributes.'),
        'note': RESOLVE_NOTE + 'Bond orders inside aromatic rings are what pysmiles returns (A2).',
        'design': '§7 C09',
    },
    'C10': {
        'text': ('Lean 4 on the contraction model (networkx.contracted_nodes semantics): exactly one atom fewer per '
                 'contraction, every other atom unchanged, the removed atom gone, memberships/mappings concatenated on '
                 'the kept atom, bonds not involving the removed atom kept. For EVERY sequence of merges (the whole loop of '
                 'squash_atoms, atoms shared any number of times): following the chain of previous merges ends within the '
                 'loop at a live atom (resolve_alive, well-founded record WF), the result has one atom fewer per merge, at '
                 'most one per shared pair, exactly one per pair when the pairs are separate, distinct keys, and every atom '
                 'off the "!" bonds is untouched (C10_count, C10_at_most, C10_separate_pairs, C10_untouched); the molecule '
                 'phase A builds meets these hypotheses for every base graph and template set with distinct keys and closed '
                 'bonds (phaseA_wellformed), which gives the count in the resolver\'s terms (C10_resolver_count: all '
                 'fragment copies together minus the merges); the template hypothesis is evaluated by the model on every '
                 'template set the real reader produces (fragsWFb_iff). The bonds of the result, for every sequence of merges (C10_quotient_bonds): '
                 'two different atoms of the squashed molecule are bonded exactly when some bond of the molecule before squashing joins '
                 'an atom merged into the one with an atom merged into the other — the quotient by the merges, every bond of a removed '
                 'atom inherited by the atom that stands for it (rep_cons: the representative map composes merge by merge; '
                 'contract_adj: adjacency after one contraction; loop invariant QInv). Membership for every sequence of merges '
                 '(C10_class_membership): the atom that finally stands for an atom lists every coarse node and every template position '
                 'that atom had when squashing started, however long the chain of merges that removed it (loop invariant MInv). Tied to the code by exact differential '
                 'execution on generated overlapping descriptions (incl. atoms shared by 3-4 fragments).'),
        'note': RESOLVE_NOTE + 'Which of two parallel bonds keeps its order, and the equivalence with disjoint descriptions, are validated by correspondence and oracle (partial).',
        'design': '§7 C10',
    },
    'C11': {
        'text': ('Lean 4: zero-order edges anywhere in the edge list contribute nothing to state or bonds; no bond is ever '
                 'made for an order-0 edge; a fragment-less node with an order>=1 edge makes the step raise SyntaxError '
                 'wherever it stands; a virtual node can be removed from any position without changing the instantiated '
                 'molecule or the instance table, and is never instantiated. Tied to the code by differential execution '
                 'with virtual nodes inserted at first/middle/last positions.'),
        'note': RESOLVE_NOTE + 'Renumbering of coarse keys by string-level insertion is covered by the oracle.',
        'design': '§7 C11',
    },
    'C12': {
        'text': ('Lean 4 (L-sort): renumbering maps keys bijectively onto 0..n-1, strictly monotone in (membership list, '
                 'old key), blocks per coarse node, touches nothing but keys; atom-name indices are injective; the distinct-keys '
                 'hypothesis is discharged for every step the resolver model can take (C12_step_keys: any base graph, '
                 'templates with distinct keys and closed bonds, any recorded aromaticity answer — through instantiation, '
                 'bond creation, squashing, hydrogen completion, sorting, stereo annotation and naming the keys of a '
                 'successful step are exactly 0..n-1), and so is the order of the numbering (C12_step_order / C12_step_blocks: in the '
                 'fine graph of every successful step a node whose membership list is lexicographically smaller has the smaller key, '
                 'so the atoms of coarse node k precede those of k\' > k, hydrogens included). '
                 'Process-level determinism (hash seeds, call histories sharing libraries, constructors, permuted '
                 'definitions, non-mutation) cannot be exhibited by a pure model and is validated by requiring every '
                 'call of every explored history / hash seed to equal the pure model (partial by nature).'),
        'note': RESOLVE_NOTE + 'Interpreter state is outside the model.',
        'design': '§7 C12',
    },
}

READ_NOTE = ('Trusted: Lean kernel (axioms propext, Classical.choice, Quot.sound only), translate.py (tables, dialect signatures, '
             'leaf functions regenerated each run; a piece it cannot read falls back to its reference model, tied by the gen_tie '
             'correspondence), the correspondence harness and its generators; modelled external: '
             're.finditer for the one node pattern, inspect.Signature.bind for the two signatures, float() on the decimal grammar. ')

CLAIMED.update({
    'C04': {
        'text': ('Lean 4, string level: for every string of the branching grammar { node (bond? "("? node ")"*)* } — any length, '
                 'any nesting depth, branches opening directly after closings, bond symbols in front of parentheses and after '
                 'them, alphanumeric names — reading returns exactly the graph the stack-machine denotation gives (numbering, '
                 'names, default annotation values, orders): C04_read_tree (tokeniser lemma + per-node decoding lemma with k '
                 'closing parentheses + state-machine simulation); C04_read_chain is the parenthesis-free instance. Ring bonds, '
                 'string level (C04_read_ring): every chain { node marks (bond? node marks)* } with single-digit and %dd ring '
                 'markers, each optionally preceded by a bond symbol — any length, any number of rings, nested or interleaved — '
                 'reads to exactly its denotation: the chain plus one ring bond per closed marker with the order written in '
                 'front of the opening marker, SyntaxError when a ring bond duplicates a bond or a marker stays open (ring scan '
                 'lemma scan_marks over the marker text incl. the %nn state machine, stepNode_ring, fold_rtail). C04_read_bare_chain: '
                 'the same chains without surrounding braces, as the fragment reader passes them. C04_read_annotated_chain: chains whose '
                 'node texts are ANY texts the base dialect accepts (name plus positional / keyword annotations): node i of the '
                 'result carries exactly the annotation values the dialect (C14) reads from the i-th node text. Rings inside '
                 'branches and annotations inside nodes: ring parity law, documented examples by kernel evaluation; their '
                 'unbounded statement is validated by correspondence of the faithful model with the code on grammar ASTs plus an '
                 'independent denotation oracle (partial). The tie of the reader model to the code draws part of its inputs '
                 'straight from the grammar C04_read_ring quantifies over (suite ringspec: any marker list per node, any symbol in '
                 'front of opening AND closing markers, digit and %dd spellings mixed) with a Python mirror of the Lean denotation '
                 'ringGraph as oracle.'),
        'note': READ_NOTE,
        'design': '§7 C04',
    },
    'C05': {
        'text': ('Lean 4, string level: for chains of any length with node multipliers |digits at any position (first node '
                 'included, followed by a bond symbol or not) reading the shorthand equals reading the written-out string — '
                 'identical numbering, names, orders. Branch multipliers: open findings R4, R6a-c pinned by kernel-evaluated '
                 'witness theorems on the faithful model; outside those classes validated by correspondence + metamorphic '
                 'oracle (partial).'),
        'note': READ_NOTE + 'Known findings R4, R6a, R6b, R6c are listed in known-findings.txt.',
        'design': '§7 C05',
    },
    'C07': {
        'text': ('Lean 4: for every TREE (any branching, depth, size, names, orders 0-4) whose node table, dfs_successors table '
                 '(pre-order numbering) and edge symbols the graph holds, the writer model produces exactly the nested text '
                 '(branches in parentheses, symbol in front of the parenthesis, last child continuing the chain) and the reader '
                 'model reads it back to the graph that text denotes (C07_tree_roundtrip = mutual induction writeGraph_tree / '
                 'loop_T / loop_K + C04_read_tree); the graph built from any tree provably holds those tables (graphOfTree_emb, '
                 'by a mutual induction over key ranges), so the statement is closed: C07_tree_text, C07_tree_roundtrip_closed; '
                 'the denotation of the text is the tree\'s own graph (treeGraph_tree, mutual induction over the reader\'s '
                 'branch stack), so write-then-read returns the graph with the same keys and the same bonds and orders '
                 '(C07_tree_identity, C07_tree_same_keys, C07_tree_same_bonds); '
                 'ring-closing edges: for every simple cycle of at least three nodes (any names, every order 0-4 on chain and '
                 'ring-closing bond, the ring edge handed to the writer in either orientation) the writer model emits '
                 '{[#n0] oc 1 ... [#nk]1} and the reader model reads it back to exactly the cycle (C07_cycle_roundtrip = '
                 'writeGraph_cycle: marker allocation and release through the loop + C04_read_ring); '
                 'also for every path graph (any length, all names, all orders 0-4): the writer model '
                 'produces exactly the chain string and the reader model reads it back to the same graph (C07_path_roundtrip = '
                 'writeGraph_path + C04_read_chain); writer and reader symbol tables are mutually inverse on orders 0-4, single '
                 'bonds are silent, ring-marker allocation never returns an open marker; round trips of branch / ring graphs by '
                 'kernel evaluation of both models. General round trip (all connected graphs x spanning trees) validated by '
                 'running both models and both implementations on random graphs and, thorough, on all connected graphs <= 6 '
                 'nodes (partial).'),
        'note': READ_NOTE + 'nx.dfs_successors and CPython set order of ring edges are parameters (contract D0 checked per case).',
        'design': '§7 C07',
    },
    'C08': {
        'text': ('Lean 4: format_bonding (translated from the source each run) followed by the fragment reader returns every '
                 'descriptor list unchanged — any length, four kinds, any label, orders 0-4 — on the atom it was written '
                 'after, clean text without the descriptors\' symbols; one-node fragments are written as text + descriptors. '
                 'Coarse path fragments end to end (C08_path_fragment): for every path of alphanumerically named beads, any '
                 'bond order 0-4 between neighbours, every bead carrying any list of descriptors, the text the writer model '
                 'emits (writeGraph_beads, by induction over the writer\'s stack machine) is read by the coarse fragment '
                 'reader model readFragCG (scanner, then graph reader on the cleaned text: C13_tokens with bracket-atom tokens, '
                 'C04_read_bare_chain) to the same path graph and the dictionary holding every descriptor under its bead, in '
                 'order. Branched/cyclic coarse fragments (graph part = C07) and atomistic fragments (atom texts are '
                 'pysmiles\', P0): validated by correspondence (writer model, scanner model, readFragCG against '
                 'strip_bonding_descriptors + read_fragment_cgsmiles) + oracle on generated fragment sets and complete strings '
                 '(partial).'),
        'note': READ_NOTE + 'pysmiles format_atom/read_smiles are external.',
        'design': '§7 C08',
    },
    'C13': {
        'text': ('Lean 4 on the character state machine, string level: for every chain of plain atoms (any length), each '
                 'followed by any number of written descriptors (all kinds, labels, orders 0-4 through the symbol before the '
                 'bracket), strip returns exactly the atoms as clean text and a dictionary that holds, per atom index, exactly '
                 'the descriptors written after that atom in order with their order digit, no marks, no annotations '
                 '(C13_chain, with exact loop-iteration accounting); the single-atom statement with arbitrary following text '
                 '(C13_descriptors_after_atom); C13_tokens: every stream of plain atoms, two-letter elements, bracket atoms with or without annotations, bond '
                 'symbols, ring-closure runs (digits and %nn, with or without ring bond symbol), balanced parentheses at any '
                 'nesting, E/Z marks, and descriptors written after an atom, after that atom\'s ring digits, after another '
                 'descriptor or after a closing parenthesis is separated exactly — clean text = text without descriptors, marks '
                 'and annotations; every descriptor under the index of the atom it was written after (atoms counted in order of '
                 'appearance, also inside branches; after a closing parenthesis the atom the branch hangs on: specDict over the '
                 'position Pos); every mark on the atoms on both of its sides (specEz); for every bracket atom what the '
                 'fragment dialect makes of its annotation text (specAttrs/annoOf) — by simulation of the loop, one iteration '
                 'per token (stripAux_tokens, fold_fields; step lemmas atom2_step, node_step, anode_step, slash_step, ring_step); '
                 'test-suite strings by kernel evaluation. C13_leading: any number of descriptors written BEFORE the first atom '
                 '([kind label] followed by the order symbol) are reported on the first atom, in order, in front of its own '
                 'descriptors (lead_step, stripAux_leads). Malformed '
                 'texts: validated by exact correspondence on generated and mutated fragment texts + the builder\'s expected '
                 '4-tuple (partial).'),
        'note': READ_NOTE,
        'design': '§7 C13',
    },
    'C14': {
        'text': ('Lean 4 for all value texts: positional = keyword forms for both generated signatures, keyword order '
                 'irrelevant (general permutation theorem for Signature.bind), documented defaults, numeric keys are numbers / '
                 'other keys verbatim, numeric spellings, annotations survive instantiation and renumbering. Tied to the code '
                 'by exact correspondence on generated annotation strings (values as exact rationals) and metamorphic + '
                 'propagation oracles.'),
        'note': READ_NOTE + 'Coarse-fragment annotations pass through the atomistic dialect (finding S3, not claimed).',
        'design': '§7 C14',
    },
    'C15': {
        'text': ('Lean 4 for every molecule: each stored cis/trans annotation is a path substituent-atom=atom-substituent over '
                 'an order-2 bond of the returned molecule (C15_refs), a node stores exactly the annotations starting at it, '
                 'the slash marks are removed and nothing else changes, chirality labels sit on the copy of the atom they were '
                 'written on and the renumbering keeps the order inside a fragment; the class is the geometric one whenever the '
                 'second substituent follows its atom (C15_ez_geometric) and the opposite otherwise (C15_ez_E1 = finding E1). Finding E3 (a marked atom that is the removed copy of a shared pair) is exhibited on the model by C15_E3_witness, its mechanism proved for every molecule by C15_E3_marks_not_transferred (a contraction hands over memberships only). '
                 'Tied to the code by exact correspondence of the whole resolution incl. the annotation tuples on generated '
                 'stereo molecules cut at double/single bonds in every fragment order, plus a geometric ground-truth oracle.'),
        'note': ('partial: independence of the class from the fragment order is false today (known findings E1 and E3, witness theorems C15_E3_witness and '
                 'C15_E1_witness); pysmiles token table modelled external; `@`-style rs_isomer tuples are outside the property.'),
        'design': '§7 C15',
    },
    'C20': {
        'text': ('Lean 4: an entry with two "=" anywhere makes the annotation a SyntaxError; surplus positional / duplicated '
                 'argument -> SyntaxError; non-numeric reserved value -> TypeError; any exception of the loop body is what '
                 'read_cgsmiles raises; a ring marker open at the end -> SyntaxError, with the parity law of the ring '
                 'bookkeeping; duplicate ring edge -> SyntaxError; non-virtual node without fragment -> SyntaxError at any '
                 'position. String level (C20_unclosed_ring_string): in every ring-chain string of any size in which some marker '
                 'occurs an odd number of times the reader raises SyntaxError; every string of that grammar gives a graph or '
                 'SyntaxError, nothing else (C20_ring_string_total). Tied to the code by fault injection at every position with '
                 'error-class correspondence.'),
        'note': READ_NOTE,
        'design': '§7 C20',
    },
})

CLAIMED.update({
    'C16': {
        'text': ('Lean 4 on the sampler model, for ALL decision lists: the translated complement lookup returns exactly the '
                 'offered complementary descriptors ($ with $ of equal order digit, > with < of identical label and order), a '
                 'growth step adds the fragment copy (template atoms, fresh keys, running membership) and exactly one bond '
                 'carrying the descriptor pair and the order digit, node set preserved, canonical numbering (L-sort), valence '
                 'completeness via C09. For EVERY run (C16_run: any library of templates with distinct keys, closed bonds, each in '
                 'one piece; any reactivities, target, start fragment and decision list, any number of steps) the molecule the '
                 'growth loop returns has distinct keys, only bonds between its own atoms and is connected (loop invariant '
                 'RunInv by induction over the loop), and in every reachable state a step leaves the old bonds untouched and '
                 'attaches the new copy by exactly one bond from an old atom to an atom of the copy, all other new bonds '
                 'inside the copy (C16_step) — a tree of fragment copies; and every copy persists (C16_every_copy, C16_start_copy: whatever '
                 'step of whatever run, in every later molecule of the run the atoms of the chosen template stand, attribute for '
                 'attribute, directly behind the atoms the molecule had before the step, the copy\'s bonds and the one attaching bond '
                 'directly behind the bonds it had — later steps only append and consume open descriptors, run_extends); the library hypothesis is a Boolean the model '
                 'evaluates on every library the real reader produced (cfgWFb_sound). Tied to the code by replaying the recorded random decisions of every real run into '
                 'the model (exact molecule dump) + structural oracle.'),
        'note': RESOLVE_NOTE + 'random.choice(s) are parameters (contract G0 checked per call).',
        'design': '§7 C16',
    },
    'C17': {
        'text': ('Lean 4: stop rule of the growth loop as a relation (sum reaches the target, every proper prefix is below it, '
                 'nothing added iff the start is not below), the model loop is such a growth; a descriptor with reactivity 0 or '
                 'missing from a non-empty table is never chosen, empty table = uniform choice; terminal handling of the '
                 'source atom. Seed reproducibility concerns the process-global RNG and is validated on repeated / '
                 'interleaved / cross-process construct-and-sample histories (partial by nature).'),
        'note': RESOLVE_NOTE + 'Masses are compared as exact rationals of the Python floats; the Mersenne Twister is outside the model.',
        'design': '§7 C17',
    },
    'C18': {
        'text': ('Lean 4: atom indices follow node iteration order, the write-back stores RDKit atom i on the i-th node for any '
                 'keys (lookup theorem under distinct keys), bond-type table inverted by GetBondTypeAsDouble on all mapped '
                 'orders, bead = weight-normalised mean: translation equivariance over any field, dependence on own atoms only. '
                 'RDKit chemistry/embedding and floating point are external: validated with RDKit in the loop (stored positions '
                 'predicted exactly, beads at 1e-9) (partial).'),
        'note': 'Trusted: Lean kernel + Mathlib (axioms propext, Classical.choice, Quot.sound), translate.py (bond table), harness; RDKit contract R0; finding K4 listed.',
        'design': '§7 C18',
    },
    'C19': {
        'text': ('Lean 4 over the reals, arbitrary node types and normed spaces: after rescaling the mean bond length equals '
                 'the requested length, distinct bonded nodes stay distinct, mean positive when bonded nodes are apart, all '
                 'target distances positive (bond = 1). Layout engines (contract Y0) and IEEE rounding external: validated with '
                 'the engines in the loop, Float model reproduces distance table and rescaled positions at 1e-9 (partial).'),
        'note': 'Trusted: Lean kernel + Mathlib (axioms propext, Classical.choice, Quot.sound), harness; networkx layout engines are parameters.',
        'design': '§7 C19',
    },
})

PENDING_REASON = ('not claimed yet: model/theorems for this property are still being built in this round '
                  '(DESIGN §11 staging); no check is registered until it decides the property soundly')

ALL = ['C%02d' % i for i in range(1, 21)]


def main():
    checks = []
    for pid in ALL:
        if pid not in CLAIMED:
            continue
        c = CLAIMED[pid]
        checks.append({
            'property_id': pid,
            'quick_cmd': f'./check {pid} quick',
            'thorough_cmd': f'./check {pid} thorough',
            'evidence_file': f'evidence/{pid}.json',
            'replay_cmd_template': f'./check {pid} --replay {{path}}',
            'engine': 'lean4-cgv',
            'level_claimed': {'category': 'proof', 'text': c['text'], 'design_ref': c['design']},
            'level_note': c['note'],
            'technique': c.get('technique', TECH),
        })
    manifest = {
        'version': 1,
        'setup_cmd': './setup.sh',
        'hooks': {
            'guard': 'CGSMILES_VERIF',
            'enable': 'no source hooks: the harness observes external calls by wrapping module attributes in its own process; '
                      'CGSMILES_VERIF=1 is exported by ./check but nothing in /repo reads it',
            'baseline_off_cmd': 'cd /repo && /venv/bin/python -m pytest -ra -q -p no:cacheprovider --timeout=900 --continue-on-collection-errors',
            'source_commits': [],
            'add_only': True,
        },
        'engines': [{
            'name': 'lean4-cgv',
            'path': 'lean/',
            'serves_properties': sorted(CLAIMED),
            'kind_free_text': 'Lean 4 project CGV: generated tables/leaf functions (translator), hand-written executable '
                              'models, lemma library, property theorems, axiom audits, compiled line-protocol driver used '
                              'by the Python correspondence harness (harness/)',
        }],
        'checks': checks,
        'not_applicable': [{'property_id': pid, 'reason': PENDING_REASON} for pid in ALL if pid not in CLAIMED],
        'notes': 'fix: commits in /repo repair genuine defects found by these checks; see known-findings.txt and DESIGN.md §6',
    }
    with open(os.path.join(VERIF, 'MANIFEST.json'), 'w') as fh:
        json.dump(manifest, fh, indent=1)
    print('MANIFEST.json written:', len(checks), 'checks,', len(manifest['not_applicable']), 'not applicable')


if __name__ == '__main__':
    main()
