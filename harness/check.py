#!/usr/bin/env python3
"""
check.py <Cxx> [quick|thorough]          decide one property on /repo's current working tree
check.py <Cxx> --replay <file>           re-run a stored failing input on the real code

Exit codes: 0 = property held on everything explored (open known findings are printed as
KNOWN-FINDING lines); 1 = `VIOLATION property=<id> replay=<path>[ no-failing-input-found]`;
2 = infrastructure failure (never on the unchanged tree).

What a run does (DESIGN §3.1):
  1. translate   regenerate lean/CGV/Gen from the current sources
  2. prove       lake build the property's theorem + audit modules, check `#print axioms`, scan for
                 escape hatches; thorough: leanchecker on the property's modules
  3. correspond  run the model driver and the implementation on the same generated inputs, compare
  4. oracle      evaluate the property's executable statement on the implementation's results
  5. decide
"""
import importlib
import json
import os
import sys
import time
import traceback

import lib


class Ctx:
    """what a property module sees while it runs its suites"""

    def __init__(self, prop, tier, seed, oracle_only=False, scale=1.0):
        self.prop = prop
        self.tier = tier
        self.seed = seed
        self.oracle_only = oracle_only
        self.scale = scale
        self.driver = None
        self.evaluations = 0
        self.unsupported = 0
        self.fingerprints = set()
        self.features = {}
        self.samples = []
        self.disagreements = []      # (suite, case, detail)
        self.failures = []           # (case, what, finding_id or None)
        self._fail_counts = {}
        self.contract_violations = []
        self.suite_counts = {}
        self.t0 = time.time()
        self.deadline = None

    # -- budgets
    def budget(self, quick, thorough):
        n = quick if self.tier == 'quick' else thorough
        return max(1, int(n * self.scale))

    def rng(self, *salt):
        return lib.rng_for(self.seed, self.prop, *salt)

    def out_of_time(self):
        # the wall-clock budget of the run, or more than enough unlisted failures to report (a change that makes every
        # case slower and slower must not keep the check running)
        return (self.deadline is not None and time.time() > self.deadline) or self._fail_counts.get(None, 0) >= 200

    def model(self, req):
        if self.driver is None:
            self.driver = lib.Driver()
        try:
            return self.driver.ask(req)
        except RuntimeError:
            # the compiled model did not answer (it crashed or was killed): start a fresh one and report the request as
            # one the model could not execute — the caller's comparison turns that into a disagreement on this input
            try:
                self.driver.close()
            except Exception:    # noqa: BLE001
                pass
            self.driver = lib.Driver()
            self.feature('model-driver-restarted')
            return {'err': 'driver-died'}

    # -- bookkeeping
    def count(self, suite, fingerprint=None, nontrivial=True, sample=None):
        self.evaluations += 1
        self.suite_counts[suite] = self.suite_counts.get(suite, 0) + 1
        if nontrivial and fingerprint is not None:
            self.fingerprints.add((suite, fingerprint))
        if sample is not None and sum(1 for s in self.samples if s.get('suite') == suite) < 3:
            self.samples.append({'suite': suite, 'case': sample})

    def feature(self, name, n=1):
        self.features[name] = self.features.get(name, 0) + n

    def skip_unsupported(self):
        self.unsupported += 1

    def disagree(self, suite, case, detail):
        if len(self.disagreements) < 50:
            self.disagreements.append((suite, case, detail))
        self.feature(f'disagree:{suite}')

    def fail(self, case, what, finding=None):
        """the property's statement is false on the implementation for this input"""
        # the cap is per class: failures that fall under a (possibly listed) finding must never crowd out the others
        n = self._fail_counts.get(finding, 0)
        self._fail_counts[finding] = n + 1
        if n < 200:
            self.failures.append((case, what, finding))

    def contract(self, name, case, detail):
        if len(self.contract_violations) < 20:
            self.contract_violations.append((name, case, detail))


def write_replay(prop, payload):
    d = os.path.join(lib.VERIF, 'evidence', 'replay')
    os.makedirs(d, exist_ok=True)
    path = os.path.join(d, f'{prop}-{lib.stable_hash(payload)}.json')
    with open(path, 'w') as fh:
        json.dump(payload, fh, indent=1, default=str)
    return os.path.relpath(path, lib.VERIF)


TRUSTED_BASE = [
    'Lean 4.33.0 kernel; axioms of every listed theorem ⊆ {propext, Classical.choice, Quot.sound} (audited each run)',
    'harness/translate.py (Python AST → lean/CGV/Gen: tables + leaf functions, regenerated each run; a piece the translator cannot read falls back to harness/reference/<section>.lean and is tied by the correspondence of harness/gen_tie.py instead)',
    'correspondence harness: generators, canonical dumps, line protocol, compiled Lean driver',
    'modelled external semantics: networkx graph behaviour as observed through node/edge iteration order, pysmiles valence table (evaluated each run)',
]


def main(argv):
    if len(argv) < 2:
        print(__doc__)
        return 2
    prop = argv[1]
    mod = importlib.import_module(f'props.{prop.lower()}')
    if len(argv) >= 4 and argv[2] == '--replay':
        with open(argv[3]) as fh:
            payload = json.load(fh)
        return mod.replay(payload)
    tier = argv[2] if len(argv) > 2 else os.environ.get('VERIF_TIER', 'quick')
    if tier not in ('quick', 'thorough'):
        tier = 'quick'
    seed = int(os.environ.get('VERIF_SEED', '0'))
    t0 = time.time()
    notes = []

    # 1. translate
    tr, hashes = lib.translate()
    proof_problems = []
    if tr['error']:
        proof_problems.append(f'translator: {tr["error"]}')

    # 2. prove
    targets = list(mod.LEAN_TARGETS) + [f'CGV.Audit.{prop}', 'CGV.GenDeps', 'driver']
    ok, out, build_s = lib.lake_build(targets)
    driver_ok = os.path.exists(os.path.join(lib.LEAN, '.lake', 'build', 'bin', 'driver'))
    if not ok:
        tail = [l for l in out.split('\n') if 'error' in l][:8]
        proof_problems.append('lake build failed: ' + ' | '.join(tail))
        # the driver may still be buildable (a broken proof does not break the model)
        ok_d, _, _ = lib.lake_build(['driver'])
        driver_ok = ok_d
    theorems = lib.audit_theorems(prop)
    discharged = []
    if ok:
        a_ok, found, a_out, _ = lib.audit(prop)
        for th in theorems:
            ax = found.get(th)
            if ax is None:
                proof_problems.append(f'theorem {th} missing from audit output')
            elif not set(ax) <= lib.ALLOWED_AXIOMS:
                proof_problems.append(f'theorem {th} uses axioms {ax}')
            else:
                discharged.append(th)
        if not a_ok:
            proof_problems.append('audit file failed to elaborate')
    # which generated pieces do this property's theorems rest on?  (a piece the translator could not read falls back
    # to its reference model; it then concerns exactly the properties whose theorems depend on it, and its tie to
    # the code is the correspondence run by gen_tie — DESIGN §0.2)
    fallbacks = tr.get('fallbacks') or {}
    sections = tr.get('sections') or {}
    deps = lib.gen_deps(prop, theorems) if ok else None
    if deps is None:
        relevant = set(sections)
    else:
        used = set().union(*deps.values()) if deps else set()
        relevant = {sec for sec, names in sections.items() if any(n in used for n in names)}
    for sec, info in sorted(fallbacks.items()):
        if sec in relevant:
            notes.append(f'generated section {sec}: translator fell back to the reference model ({info["error"][:120]}); '
                         f'tied to the code by correspondence (gen_tie)')
        else:
            notes.append(f'generated section {sec}: translator fell back to the reference model; none of this property\'s '
                         f'theorems depends on it')
    hits = lib.scan_forbidden()
    if hits:
        proof_problems.append('forbidden construct: ' + '; '.join(hits[:3]))
    checker_cmd = f'cd lean && lake build {" ".join(targets)} && lake env lean CGV/Audit/{prop}.lean'
    if tier == 'thorough' and ok:
        mods = [t for t in mod.LEAN_TARGETS]
        code, lc_out, _ = lib.run(['lake', 'env', 'leanchecker'] + mods, cwd=lib.LEAN, timeout=3600)
        checker_cmd += f' && lake env leanchecker {" ".join(mods)}'
        if code != 0:
            proof_problems.append('leanchecker rejected: ' + lc_out[-300:])

    # 3 + 4. correspondence and oracle
    ctx = Ctx(prop, tier, seed, scale=float(os.environ.get('VERIF_QUICK_SCALE', '3')) if tier == 'quick' else 1.0)
    ctx.deadline = time.time() + (300 if tier == 'quick' else 3000)
    if not driver_ok:
        if 'CGV/Gen/' in out or 'CGV.Gen.' in out:
            # the definitions REGENERATED FROM /repo no longer compile (the translated source left the shape the
            # translator and the bridging theorems rely on): that is a broken tie, not infrastructure — no model can
            # be executed, so the property's oracle alone searches the real code for a failing input
            proof_problems.append('the definitions generated from the current source do not compile; the model cannot be executed')
            ctx.oracle_only = True
        else:
            print('infrastructure failure: model driver does not build', file=sys.stderr)
            print(out[-2000:], file=sys.stderr)
            return 2
    # last resort against a call into the implementation that never returns: the whole run is bounded (exit 2)
    import signal

    def hard_stop(signum, frame):
        print(f'infrastructure failure: check {prop} exceeded its hard time limit', file=sys.stderr)
        os._exit(2)
    signal.signal(signal.SIGALRM, hard_stop)
    signal.alarm(1500 if tier == 'quick' else 9000)
    try:
        # minimised past failures first (regression corpus), then the generated suites
        cdir = os.path.join(lib.VERIF, 'corpus', prop)
        if os.path.isdir(cdir) and hasattr(mod, 'corpus_case'):
            for fn in sorted(os.listdir(cdir)):
                if fn.endswith('.json'):
                    with open(os.path.join(cdir, fn)) as fh:
                        mod.corpus_case(ctx, json.load(fh))
        mod.run(ctx)
        import gen_tie
        gen_tie.run(ctx, set(fallbacks), relevant)
    except Exception:    # noqa: BLE001
        traceback.print_exc()
        return 2

    broken = bool(proof_problems or ctx.disagreements or ctx.contract_violations)
    if broken and not [f for f in ctx.failures if f[2] is None]:
        # search harder for a concrete failing input of the property on the real code
        sctx = Ctx(prop, tier, seed + 7919, oracle_only=True, scale=5.0)
        sctx.deadline = time.time() + (60 if tier == 'quick' else 600)
        sctx.driver = ctx.driver
        try:
            seeds = [c for _, c, _ in ctx.disagreements]
            if hasattr(mod, 'search'):
                mod.search(sctx, seeds)
            else:
                mod.run(sctx)
        except Exception:    # noqa: BLE001
            traceback.print_exc()
        ctx.failures.extend(sctx.failures)
        notes.append(f'failing-input search: {sctx.evaluations} further evaluations')
    if ctx.driver:
        ctx.driver.close()

    # 5. decide
    findings = [f for f in lib.load_findings() if f.get('property') == prop]
    open_ids = {f['id'] for f in findings if f['kind'] == 'finding'}
    new_failures = [f for f in ctx.failures if f[2] is None or f[2] not in open_ids]
    known_hit = {}
    for case, what, fid in ctx.failures:
        if fid in open_ids:
            known_hit.setdefault(fid, (case, what))
    # replay the committed witness of every open finding on the real code
    for f in findings:
        if f['kind'] != 'finding':
            continue
        try:
            still = mod.finding_still_fails(f)
        except Exception:    # noqa: BLE001
            still = None
        if still or f['id'] in known_hit:
            print(f'KNOWN-FINDING: property={prop} {f["id"]} {f["text"]}')

    violations = 0
    status = 0
    if new_failures:
        case, what, _ = new_failures[0]
        path = write_replay(prop, {'property': prop, 'kind': 'failing-input', 'what': what, 'case': case,
                                   'seed': seed, 'tier': tier,
                                   'how': f'./check {prop} --replay <this file>'})
        print(f'VIOLATION property={prop} replay={path}')
        violations = len(new_failures)
        status = 1
    elif broken:
        payload = {'property': prop, 'kind': 'no-failing-input-found', 'seed': seed, 'tier': tier,
                   'unchecked_theorems_or_build': proof_problems,
                   'broken_correspondence': [{'suite': s, 'case': c, 'detail': d} for s, c, d in ctx.disagreements[:5]],
                   'violated_contracts': [{'contract': n, 'case': c, 'detail': d} for n, c, d in ctx.contract_violations[:5]],
                   'note': 'the proof/correspondence that ties the theorems to the current source no longer checks; '
                           'no input on which the property itself fails was found'}
        path = write_replay(prop, payload)
        print(f'VIOLATION property={prop} replay={path} no-failing-input-found')
        violations = 1
        status = 1

    obligations = len(theorems) + (1 if tr is not None else 0)
    done = len(discharged) + (0 if tr['error'] else 1)
    evidence = {
        'property_id': prop, 'tier': tier, 'seed': seed, 'level': 'proof',
        'coverage': {
            'obligations': obligations, 'discharged': done,
            'checker_cmd': checker_cmd,
            'trusted_base': TRUSTED_BASE + list(getattr(mod, 'TRUSTED_EXTRA', [])),
            'theorems': discharged,
            'evaluations': ctx.evaluations,
            'distinct_nontrivial': len(ctx.fingerprints),
            'rule': getattr(mod, 'RULE', ''),
            'samples': ctx.samples[:12] or [{'theorems': discharged[:5]}],
            'suite_counts': ctx.suite_counts,
            'feature_hits': dict(sorted(ctx.features.items())),
            'unsupported_skipped': ctx.unsupported,
            'correspondence_disagreements': len(ctx.disagreements),
            'oracle_failures': len(ctx.failures),
            'known_findings_seen': sorted(known_hit),
            'proof_problems': proof_problems,
            'generated_sections_used': sorted(relevant),
            'generated_sections_in_fallback': sorted(fallbacks),
            'source_hashes': hashes,
            'notes': notes,
            'build_s': round(build_s, 2),
        },
        'assumptions': list(getattr(mod, 'ASSUMPTIONS', [])),
        'wall_s': round(time.time() - t0, 2),
        'violations': violations,
    }
    os.makedirs(os.path.join(lib.VERIF, 'evidence'), exist_ok=True)
    with open(os.path.join(lib.VERIF, 'evidence', f'{prop}.json'), 'w') as fh:
        json.dump(evidence, fh, indent=1, default=str)
    print(f'{prop} {tier} seed={seed}: theorems {len(discharged)}/{len(theorems)}, '
          f'{ctx.evaluations} evaluations ({len(ctx.fingerprints)} distinct non-trivial), '
          f'{len(ctx.disagreements)} disagreements, {len(ctx.failures)} oracle failures, '
          f'{time.time() - t0:.1f}s -> exit {status}')
    return status


if __name__ == '__main__':
    sys.exit(main(sys.argv))
