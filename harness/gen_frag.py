"""
`fragtext` suite (DESIGN §5): fragment texts built from atoms / bracket atoms / CG nodes, bonds,
branches, ring markers, E/Z marks, with bonding descriptors and annotations inserted.  The builder
computes what the property says must come out (clean text, descriptors by atom index with their
order, E/Z marks, annotations) independently of the implementation.
"""
ORGANIC = ['C', 'C', 'C', 'N', 'O', 'S', 'P', 'F', 'Cl', 'Br', 'c', 'c', 'n', 'o', 'B', 'I', '*']      # ('*': the wildcard atom)
BRACKET = ['CH2', 'OH', 'NH3+', 'O-', 'nH', 'Na+', 'C@@H', '13CH4', 'Si', 'H', 'CH']
SYMS = {1: '-', 2: '=', 3: '#', 4: '$', 0: '.', 1.5: ':'}


def order_text(o):
    return '1.5' if o == 1.5 else str(o)


class Builder:
    def __init__(self, rng, cg=False, annos=True, ez=True, desc_p=0.35):
        self.rng = rng
        self.cg = cg
        self.annos = annos
        self.ez = ez
        self.desc_p = desc_p
        self.text = ''
        self.clean = ''
        self.bonding = {}
        self.ezmarks = {}
        self.attrs = {}
        self.count = 0
        self.ring_next = 1
        self.open_rings = []

    def descriptor(self, atom, leading=False):
        rng = self.rng
        kind = rng.choice('$$><!')
        label = rng.choice(['', '', 'A', 'b1', 'L12'])
        o = rng.choice([1, 1, 1, 2, 3, 0]) if not leading else rng.choice([1, 1, 2, 0])
        if not self.cg and rng.random() < 0.06:
            o = 1.5                      # the aromatic bond symbol ':' in front of (or behind) a descriptor
        explicit = o != 1 or rng.random() < 0.1
        if leading:
            self.text += '[' + kind + label + ']' + (SYMS[o] if explicit else '')
        else:
            self.text += (SYMS[o] if explicit else '') + '[' + kind + label + ']'
        self.bonding.setdefault(atom, []).append(kind + label + order_text(o))

    def anno(self):
        rng = self.rng
        ent, exp = [], {'weight': 1.0}
        if rng.random() < 0.6:
            w = rng.choice(['0.5', '2', '1e-1', '.25'])
            ent.append(w if rng.random() < 0.5 else 'w=' + w)
            exp['weight'] = float(w)
        if rng.random() < 0.4:
            x = rng.choice(['R', 'S'])
            ent.append('x=' + x)
            exp['chiral'] = x
        if rng.random() < 0.3:
            ent.append('tag=t%d' % self.count)
            exp['tag'] = 't%d' % self.count
        # positional and keyword entries in any order: a positional entry is the weight wherever it stands
        rng.shuffle(ent)
        return ent, exp

    def atom(self):
        rng = self.rng
        idx = self.count
        if self.cg:
            name = rng.choice(['A', 'B', 'PEO', 'X1'])
            ent, exp = self.anno() if self.annos and rng.random() < 0.3 else ([], {'weight': 1.0})
            self.text += '[#' + ';'.join([name] + ent) + ']'
            self.clean += '[#' + name + ']'
            self.attrs[idx] = exp
        elif rng.random() < 0.25:
            inner = rng.choice(BRACKET)
            ent, exp = self.anno() if self.annos and rng.random() < 0.5 else ([], {'weight': 1.0})
            self.text += '[' + ';'.join([inner] + ent) + ']'
            self.clean += '[' + inner + ']'
            self.attrs[idx] = exp
        else:
            el = rng.choice(ORGANIC)
            self.text += el
            self.clean += el
        self.count += 1
        return idx

    def rings(self, atom):
        rng = self.rng
        n = rng.choice([0, 0, 0, 1, 1, 2])
        for _ in range(n):
            if self.open_rings and rng.random() < 0.5:
                r = self.open_rings.pop(rng.randrange(len(self.open_rings)))
                sym = ''
            else:
                r = self.ring_next if rng.random() < 0.8 else rng.choice([0, 10, 12, 25])
                self.ring_next += 1
                self.open_rings.append(r)
                sym = rng.choice(['', '', '=', '#']) if not self.cg else rng.choice(['', '', '=', '.'])
            m = str(r) if r < 10 else '%%%d' % r
            self.text += sym + m
            self.clean += sym + m

    def item(self, depth, first=False):
        rng = self.rng
        if not first:
            sym = rng.choice(['', '', '', '-', '=', '#', '.']) if not self.cg else rng.choice(['', '', '=', '.', '#'])
            self.text += sym
            self.clean += sym
        if self.ez and not self.cg and rng.random() < 0.08:
            mark = rng.choice('/\\')
            self.text += mark
            self.ezmarks[self.count] = mark
            if self.count > 0:
                self.ezmarks[self.prev] = mark
            else:
                self.ezmarks[0] = mark
        a = self.atom()
        self.prev = a
        before = rng.random() < 0.5
        ndesc = 0
        if rng.random() < self.desc_p:
            ndesc = rng.choice([1, 1, 2, 3])
        if before:
            for _ in range(ndesc):
                self.descriptor(a)
            self.rings(a)
        else:
            self.rings(a)
            for _ in range(ndesc):
                self.descriptor(a)
        # branches
        while depth > 0 and rng.random() < 0.25:
            self.text += '('
            self.clean += '('
            self.chain(depth - 1, rng.randint(1, 3), sym_first=True)
            self.text += ')'
            self.clean += ')'
            self.prev = a
            if rng.random() < 0.2:
                self.descriptor(a)       # descriptor after a branch closing belongs to the anchor
        self.prev = a

    def chain(self, depth, n, sym_first=False):
        for i in range(n):
            if i == 0 and sym_first and self.rng.random() < 0.3:
                s = self.rng.choice(['=', '#', '-']) if not self.cg else '='
                self.text += s
                self.clean += s
                self.item(depth, first=True)
            else:
                self.item(depth, first=(i == 0))


def frag_case(rng, cg=None):
    cg = rng.random() < 0.3 if cg is None else cg
    b = Builder(rng, cg=cg)
    b.prev = 0
    # leading descriptors belong to the first atom
    for _ in range(rng.choice([0, 0, 1, 1, 2])):
        b.descriptor(0, leading=True)
    b.chain(rng.choice([0, 1, 2]), rng.randint(1, 6))
    return {'kind': 'fragtext', 's': b.text, 'clean': b.clean, 'bonding': {str(k): v for k, v in b.bonding.items()},
            'ez': {str(k): v for k, v in b.ezmarks.items()}, 'attrs': {str(k): v for k, v in b.attrs.items()}, 'cg': cg}
