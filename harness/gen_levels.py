"""
Hierarchical (multi-level) descriptions of a fragmented molecule (C06, C02): the fine fragments of
a cut molecule are grouped into connected groups; every group becomes a coarse fragment whose
descriptors carry the number of bonds they stand for; optionally the groups are grouped again.
"""
import collections

import networkx as nx

import gen_mol
from gen_mol import SYM


def render_cg_fragment(rng, sub, names, desc):
    """coarse fragment: graph over lower-level fragment names with bond orders, descriptors after nodes"""
    nodes = list(sub.nodes)
    start = rng.choice(nodes)
    visited = set()
    parent = {start: None}
    tree = collections.defaultdict(list)
    rings = {}
    nb = {n: rng.sample(sorted(sub[n]), len(sub[n])) for n in sub}
    rid = [0]

    def dfs(u):
        visited.add(u)
        for v in nb[u]:
            if v not in visited:
                parent[v] = u
                tree[u].append(v)
                dfs(v)
            elif v != parent[u] and frozenset((u, v)) not in rings:
                rid[0] += 1
                rings[frozenset((u, v))] = rid[0]
    dfs(start)
    opened = set()

    def emit(u):
        s = '[#%s]' % names[u]
        for e, r in rings.items():
            if u in e:
                o = sub.edges[tuple(e)]['order']
                first = r not in opened
                if first:
                    opened.add(r)
                s += (SYM[o] if first else '') + str(r)
        for (txt, o) in desc.get(u, []):
            s += SYM[o] + '[' + txt + ']'
        kids = tree[u]
        for i, v in enumerate(kids):
            o = sub.edges[u, v]['order']
            if i < len(kids) - 1:
                s += SYM[o] + '(' + emit(v) + ')'
            else:
                s += SYM[o] + emit(v)
        return s
    return emit(start)


def group(rng, base, ng):
    nodes = list(base)
    rng.shuffle(nodes)
    seeds = nodes[:ng]
    grp = {s: i for i, s in enumerate(seeds)}
    while len(grp) < len(base):
        cand = [x for x in grp if any(v not in grp for v in base[x])]
        if not cand:
            return None
        u = rng.choice(cand)
        v = rng.choice([v for v in base[u] if v not in grp])
        grp[v] = grp[u]
    return grp


def hier_case(rng, levels=None, last_all_atom=True, share_p=0.0, virtual_p=0.0):
    """molecule -> atom fragments (level L) -> groups (level L-1) [-> groups of groups]"""
    while True:
        g = gen_mol.rnd_mol(rng, rng.randint(4, 12), aromatic_p=0.2)
        nf = rng.randint(2, min(6, len(g)))
        base, frag_text, part, _ = gen_mol.cut_description(rng, g, nf)
        if not nx.is_connected(base):
            continue
        if base.number_of_edges() and max(o for *_, o in base.edges(data='order')) > 4:
            continue
        levels = levels or rng.choice([1, 1, 2])
        layers = []      # list of (fragment-block string)
        reuse_names = rng.random() < 0.3
        nshared = [0]
        nvirtual = [0]
        names = {i: 'F%d' % i for i in range(nf)}
        cur = base
        ok = True
        for lv in range(levels):
            ng = rng.randint(1, max(1, len(cur) - 1)) if len(cur) > 1 else 1
            grp = group(rng, cur, ng)
            if grp is None:
                ok = False
                break
            top = nx.Graph()
            top.add_nodes_from(range(ng))
            desc = collections.defaultdict(list)
            lab = 0
            shared_into = set()
            ext = cur.copy()          # beads shared between two groups are added as extra copies
            names = dict(names)
            grp = dict(grp)
            # now and then all bonds between the same two groups share ONE label: what tells them apart is their order
            pair_labels = rng.random() < 0.25
            pair_orders = collections.defaultdict(list)
            for a, b, o in cur.edges(data='order'):
                if grp[a] != grp[b]:
                    pair_orders[(min(grp[a], grp[b]), max(grp[a], grp[b]))].append(o)
            for a, b, o in list(cur.edges(data='order')):
                if grp[a] != grp[b]:
                    lab += 1
                    kind = rng.choice(['$', '><'])
                    L = 'Q%d%d' % (lv, lab)
                    po = pair_orders[(min(grp[a], grp[b]), max(grp[a], grp[b]))]
                    will_share = bool(share_p) and rng.random() < share_p and (grp[a], b) not in shared_into
                    if pair_labels and not share_p and len(po) > 1 and len(set(po)) == len(po):
                        # (never together with shared beads: a shared pair has no order that could tell two of them apart)
                        L = 'P%dx%dx%d' % (lv, min(grp[a], grp[b]), max(grp[a], grp[b]))
                        kind = '><'
                        if grp[a] > grp[b]:
                            a, b = b, a          # '>' always on the lower group: equal labels never pair the wrong way round
                    if will_share:
                        shared_into.add((grp[a], b))     # one copy of a bead per group
                        # the group of `a` gets a copy b' of bead b, bonded to a; b' and b carry the '!' pair
                        bp = max(ext.nodes) + 1
                        ext.add_node(bp)
                        ext.add_edge(a, bp, order=o)
                        names[bp] = names[b]
                        grp[bp] = grp[a]
                        desc[bp].append(('!' + L, 1))
                        desc[b].append(('!' + L, 1))
                        nshared[0] += 1
                    elif kind == '$':
                        desc[a].append(('$' + L, o))
                        desc[b].append(('$' + L, o))
                    else:
                        desc[a].append(('>' + L, o))
                        desc[b].append(('<' + L, o))
                    ga, gb = grp[a], grp[b]
                    if top.has_edge(ga, gb):
                        top.edges[ga, gb]['order'] += 1
                    else:
                        top.add_edge(ga, gb, order=1)
            if top.number_of_edges() and max(o for *_, o in top.edges(data='order')) > 4:
                ok = False
                break
            if any(o > 3 for ds in desc.values() for _, o in ds):
                ok = False
                break
            gnames = {j: 'G%d_%d' % (lv, j) for j in range(ng)}
            if reuse_names:
                # a group may carry the name of one of its own members (a polymer 'PEO' made of 'PEO' units)
                for j in range(ng):
                    if rng.random() < 0.6:
                        gnames[j] = names[rng.choice([f for f in cur if grp[f] == j])]
                if len(set(gnames.values())) < ng:
                    gnames = {j: 'G%d_%d' % (lv, j) for j in range(ng)}
            block = []
            for j in range(ng):
                members = [f for f in ext if grp[f] == j]
                sub = ext.subgraph(members).copy()
                text = render_cg_fragment(rng, sub, names, desc)
                if virtual_p and rng.random() < virtual_p:
                    # a node without fragment, attached by a zero-order bond: virtual at the next step
                    text = text + '.[#VX]' if rng.random() < 0.5 else '[#VX].' + text
                    nvirtual[0] += 1
                block.append('#%s=%s' % (gnames[j], text))
            rng.shuffle(block)
            layers.append('{' + ','.join(block) + '}')
            cur, names = top, gnames
        if not ok:
            continue
        break
    nv_base = rng.choice([1, 2]) if (virtual_p and rng.random() < virtual_p) else 0
    base_str, _ = gen_mol.render_base(rng, cur, names, virtual=nv_base)
    frags = ','.join('#F%d=%s' % (i, frag_text[i]) for i in rng.sample(range(nf), nf))
    s = base_str + '.' + '.'.join(reversed(layers)) + '.{' + frags + '}'
    flat_base, _ = gen_mol.render_base(rng, base, {i: 'F%d' % i for i in range(nf)})
    whole = '{[#M]}.{#M=' + gen_mol.render_frag(rng, g, list(g), {}) + '}'
    return {'kind': 'hier', 'nshared_upper': nshared[0], 'nvirtual': nvirtual[0] + nv_base, 's': s, 'flat': flat_base + '.{' + frags + '}', 'whole': whole, 'levels': levels + 1,
            'nfrag': nf, 'natoms': len(g),
            'mol': {'n': [[k, d['element'], d['charge'], d['h'], d['aromatic']] for k, d in g.nodes(data=True)],
                    'e': [[a, b, o] for a, b, o in g.edges(data='order')]}}


def mult_case(rng):
    """a polymer written on three levels whose MIDDLE level uses the expansion operator inside a fragment definition
    ('#X=[<][#A]|2[#B][>]'): the units of the middle fragment written out are the flattened two-level description.
    Only '|2' is used behind which something follows (descriptors or beads): other factors in that position are open
    finding R7."""
    units = {'A': '[<]CC[>]', 'B': '[<]OC[>]', 'C': '[<]C(C)C[>]', 'D': '[<]NC[>]', 'E': '[<]C(=O)C[>]'}
    names = rng.sample(sorted(units), rng.randint(2, 3))
    beads = []           # (name, factor)
    for k in range(rng.randint(2, 4)):
        beads.append([rng.choice(names), 1])
    j = rng.randrange(len(beads))
    beads[j][1] = 2
    if rng.random() < 0.3 and len(beads) > 2:
        # a second expansion, at the very end of the fragment (nothing but the closing descriptor behind it)
        beads[-1][1] = rng.choice([2, 2, 3]) if j != len(beads) - 1 else 2
    text = '[<]' + ''.join('[#%s]%s' % (n, '|%d' % f if f > 1 else '') for n, f in beads) + '[>]'
    # an expansion with factor 3 is only written where the closing descriptor is the only thing that follows and ... no:
    # keep to factor 2 everywhere (R7)
    text = text.replace('|3', '|2')
    beads = [[n, 2 if f > 1 else 1] for n, f in beads]
    m = rng.randint(1, 3)
    top = '{[#X]%s}' % ('|%d' % m if m > 1 else '')
    used = sorted({n for n, _ in beads})
    frag_block = '{' + ','.join('#%s=%s' % (n, units[n]) for n in used) + '}'
    s3 = top + '.{#X=' + text + '}.' + frag_block
    flat_beads = [n for n, f in beads for _ in range(f)] * m
    flat = '{' + ''.join('[#%s]' % n for n in flat_beads) + '}.' + frag_block
    return {'kind': 'hier', 's': s3, 'flat': flat, 'levels': 2, 'all_atom': True, 'mult_in_fragment': True}


def digit_case(rng):
    """two groups of a middle level joined by a single and a double coarse bond through the SAME plain '>' / '<' symbols:
    only the order digit tells the two pairs apart, in whichever order the beads are written (bicyclo[2.2.0]hexane in four
    pieces; atomistic or coarse last level, optionally one more level on top)"""
    aa = rng.random() < 0.6
    last = ('{#A=[$ab]C[$ac],#B=[$ab]C([$p])C[$q],#C=[$cd]C[$ac],#D=[$p]C([$cd])C[$q]}' if aa else
            '{#A=[$ab][#a][$ac],#B=[$ab][#b1][$p][#b2][$q],#C=[$cd][#c][$ac],#D=[$p][#d1][$cd][#d2][$q]}')
    x = rng.choice(['[#A][>][#B]=[>]', '[#B]=[>][#A][>]'])
    y = rng.choice(['[#D]=[<][#C][<]', '[#C][<][#D]=[<]'])
    mid = '{#X=%s,#Y=%s}' % (x, y) if rng.random() < 0.5 else '{#Y=%s,#X=%s}' % (y, x)
    top = '{[#X]=[#Y]}' if rng.random() < 0.7 else '{[#Y]=[#X]}'
    s = top + '.' + mid + '.' + last
    levels = 2
    if rng.random() < 0.3:
        s = '{[#T]}.{#T=%s}.' % top[1:-1] + mid + '.' + last
        levels = 3
    return {'kind': 'hier', 's': s, 'flat': '{[#A]1[#B]=[#D][#C]1}.' + last, 'levels': levels, 'all_atom': aa,
            'order_digit_family': True}
