inductive AnnoType where | str | float deriving DecidableEq, Repr
inductive AnnoDefault where | str (s : Str) | num (n : Int) (d : Nat) deriving DecidableEq, Repr
structure AnnoParam where
  name : Str
  default : Option AnnoDefault
  type : AnnoType
deriving DecidableEq, Repr
structure DialectSig where
  params : List AnnoParam
  acceptKwargs : Bool
  renames : List (Str × Str)
deriving Repr
/-- dialects.py `CGSMILES_DEFAULT_DIALECT` as used by `parse_graph_base_node` -/
def baseDialect : DialectSig := ⟨[⟨['f', 'r', 'a', 'g', 'n', 'a', 'm', 'e'], none, .str⟩, ⟨['q'], some (.num 0 1), .float⟩, ⟨['w'], some (.num 1 1), .float⟩], true, [(['w'], ['w', 'e', 'i', 'g', 'h', 't']), (['q'], ['c', 'h', 'a', 'r', 'g', 'e'])]⟩
/-- dialects.py `fragment_base` as used by `_fragment_node_parser` -/
def fragDialect : DialectSig := ⟨[⟨['w'], some (.num 1 1), .float⟩, ⟨['x'], none, .str⟩], true, [(['w'], ['w', 'e', 'i', 'g', 'h', 't']), (['x'], ['c', 'h', 'i', 'r', 'a', 'l'])]⟩
def annotationSep : Char := ';'
def annotationAssign : Char := '='
def dropNone : Bool := true
