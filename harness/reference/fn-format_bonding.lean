/-- write_cgsmiles.py `format_bonding` -/
def formatBonding (bonding : List Str) : Py (Str) := do
  let mut bond_str : Str := []
  for bonding_descrpt_it in bonding do
    let mut bonding_descrpt : Str := bonding_descrpt_it
    let mut bond_order : Str := (← pyLast bonding_descrpt)
    let mut order_symb : Str := (← pyGet orderToSymbolS (2 * (← pyIntLit bond_order)))
    if (order_symb != ['-']) then
      bond_str := bond_str ++ order_symb
    bond_str := bond_str ++ ((['['] ++ (pyInit bonding_descrpt)) ++ [']'])
  return bond_str
