variable {Prob : Type}

/-- sample.py `_set_bond_order_defaults`, dict branch (keys: descriptors) -/
def setBondOrderDefaultsDict (bonding : List (Str × Prob)) : Py (List (Str × Prob)) := do
  let mut default_dict : List (Str × Prob) := []
  for (bond_operator_it, prob) in bonding do
    let mut bond_operator : Str := bond_operator_it
    if (!(pyIsDigit (← pyLast bond_operator))) then
      bond_operator := bond_operator ++ ['1']
    default_dict := pySet default_dict bond_operator prob
  return default_dict

/-- sample.py `_set_bond_order_defaults`, list branch -/
def setBondOrderDefaultsList (bonding : List Str) : Py (List Str) := do
  let mut default_list : List Str := []
  for bond_operator_it in bonding do
    let mut bond_operator : Str := bond_operator_it
    if (!(pyIsDigit (← pyLast bond_operator))) then
      bond_operator := bond_operator ++ ['1']
    default_list := default_list ++ [bond_operator]
  return default_list
