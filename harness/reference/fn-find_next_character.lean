/-- read_cgsmiles.py `_find_next_character` (chars: list of one-character strings) -/
def findNextCharacter (string : Str) (chars : List Str) (start : Nat) : Py (Nat) := do
  for (token_c, idx) in List.zipIdx (List.drop start string) do
    let token : Str := [token_c]
    if (List.elem token chars) then
      return (idx + start)
  return (List.length string)
