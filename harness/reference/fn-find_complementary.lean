/-- cgsmiles_utils.py `find_complementary_bonding_descriptor` (called with a list) -/
def findComplementary (bonding_descriptor : Str) (ellegible_descriptors : List Str) : Py (List Str) := do
  let mut compl : List Str := []
  if (← (do pure ((← (do pure ((← pyHead bonding_descriptor) == ['$']))) && (!(List.isEmpty ellegible_descriptors))))) then
    for descriptor_it in ellegible_descriptors do
      let mut descriptor : Str := descriptor_it
      if (← (do if (← (do pure ((← pyHead descriptor) == ['$']))) then (do pure ((← pyLast descriptor) == (← pyLast bonding_descriptor))) else pure false)) then
        compl := compl ++ [descriptor]
    return compl
  let mut compl_1 : Str := []
  if (← (do pure ((← pyHead bonding_descriptor) == ['<']))) then
    compl_1 := (['>'] ++ (List.drop 1 bonding_descriptor))
  else
    if (← (do pure ((← pyHead bonding_descriptor) == ['>']))) then
      compl_1 := (['<'] ++ (List.drop 1 bonding_descriptor))
    else
      compl_1 := bonding_descriptor
  if (!(List.elem compl_1 ellegible_descriptors)) then
    throw PyErr.io
  return [compl_1]
