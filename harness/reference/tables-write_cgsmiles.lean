/-- write_cgsmiles.py `order_to_symbol`, keys in HALF units -/
def orderToSymbol2 : List (Nat × Char) := [(0, '.'), (2, '-'), (3, ':'), (4, '='), (6, '#'), (8, '$')]
def orderToSymbolS : List (Nat × Str) := orderToSymbol2.map (fun p => (p.1, [p.2]))
