/-- read_fragments.py `bond_to_order`, orders in HALF units (1.5 ↦ 3) -/
def bondToOrder2 : List (Char × Nat) := [('-', 2), ('=', 4), ('#', 6), ('$', 8), (':', 3), ('.', 0)]
def descriptorKinds : List Char := ['$', '>', '<', '!']
def twoLetterElements : List Str := [['C', 'l'], ['B', 'r'], ['S', 'i'], ['M', 'g'], ['N', 'a']]
def passThroughChars : Str := [']', ' ', 'H', ' ', '.', ' ', '-', ' ', '=', ' ', '#', ' ', '$', ' ', ':', ' ', '+', ' ', '-']
def ezChars : Str := ['/', ' ', '\\']
