/-- resolve.py `compatible` -/
def compatible (left : Str) (right : Str) (legacy : Bool) : Py (Bool) := do
  let mut l : Str := []
  let mut r : Str := []
  if legacy then
    if (← (do if (left == right) then (do pure (!(pyStrIn (← pyHead left) ['>', ' ', '<']))) else pure false)) then
      return true
    l := (← pyHead left)
    r := (← pyHead right)
    if (((l, r) == (['<'], ['>'])) || ((l, r) == (['>'], ['<']))) then
      return ((List.drop 1 left) == (List.drop 1 right))
    return false
  else
    if (← (do if (← (do pure (((← pyHead left) == (← pyHead right)) && ((← pyHead right) == ['$'])))) then pure true else (do pure (((← pyHead left) == (← pyHead right)) && ((← pyHead right) == ['!']))))) then
      return true
    l := (← pyHead left)
    r := (← pyHead right)
    if (((l, r) == (['<'], ['>'])) || ((l, r) == (['>'], ['<']))) then
      return true
    return false
