/-- rdkit.py `BOND_TYPE_MAP`: half-unit order ↦ RDKit bond type name -/
def bondTypeMap2 : List (Nat × String) := [(0, "ZERO"), (2, "SINGLE"), (4, "DOUBLE"), (6, "TRIPLE"), (8, "QUADRUPLE"), (3, "AROMATIC")]
