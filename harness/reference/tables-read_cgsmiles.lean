/-- read_cgsmiles.py `symbol_to_order` (values are plain integers there) -/
def symbolToOrder : List (Char × Nat) := [('.', 0), ('=', 2), ('-', 1), ('#', 3), ('$', 4)]
def defaultBondOrder : Nat := 1
/-- the string tested at `pattern[stop+rdx-1] in ...` (substring test on one character) -/
def bondAfterNodeChars : Str := ['-', ' ', '+', ' ', '.', ' ', '=', ' ', '#', ' ', '$']
/-- character lists handed to `_find_next_character` (by the variable they define) -/
def eonChars : List Char := ['[', ')', '(', '}', '.', '=', '-', '#', '$']
def branchStopOpen : List Char := ['[']
def branchStopClose : List Char := [')']
def eonAChars : List Char := [')']
def eonBChars : List Char := ['[', ')', '(', '}', '.', '=', '-', '#', '$']
/-- the node regular expression; the model implements exactly this pattern -/
def placeHolderPattern : Str := ['\\', '[', '\\', '#', '.', '*', '?', '\\', ']']
