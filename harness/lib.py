"""
Shared machinery of the checks: locating and importing /repo's *current* working tree, the Lean
project (translate, build, audit), the model driver process, canonical dumps, evidence, findings.
"""
import contextlib
import hashlib
import io
import json
import os
import random
import re
import subprocess
import sys
import time

VERIF = os.path.dirname(os.path.dirname(os.path.abspath(__file__)))
REPO = os.environ.get('CGSMILES_REPO', '/repo')
LEAN = os.path.join(VERIF, 'lean')
os.environ.setdefault('PBR_VERSION', '0')
os.environ.setdefault('CGSMILES_VERIF', '1')

if sys.path[0] != REPO:
    sys.path.insert(0, REPO)
if os.path.join(VERIF, 'harness') not in sys.path:
    sys.path.insert(1, os.path.join(VERIF, 'harness'))

ALLOWED_AXIOMS = {'propext', 'Classical.choice', 'Quot.sound'}


class CallTimeout(BaseException):
    """an implementation call did not return within its time limit (BaseException: the code under test must not be able
    to swallow it with `except Exception`)"""


@contextlib.contextmanager
def time_limit(seconds):
    """bound one call into the implementation (main thread only; nested use keeps the outer alarm's remaining time)"""
    import signal

    def on_alarm(signum, frame):
        raise CallTimeout(f'no result within {seconds} s')
    old_handler = signal.signal(signal.SIGALRM, on_alarm)
    old_left = signal.alarm(int(seconds))
    try:
        yield
    finally:
        signal.alarm(0)
        signal.signal(signal.SIGALRM, old_handler)
        if old_left:
            signal.alarm(old_left)


class Unsupported(Exception):
    """input outside the lexical/numeric domain of the model: counted and skipped, never compared"""


# ----------------------------------------------------------------------------------------------
#  the implementation
# ----------------------------------------------------------------------------------------------
def import_repo():
    """import cgsmiles from the working tree (never from site-packages)"""
    import cgsmiles
    path = os.path.dirname(os.path.abspath(cgsmiles.__file__))
    if not path.startswith(os.path.abspath(REPO)):
        raise RuntimeError(f'cgsmiles imported from {path}, expected {REPO}')
    import logging
    logging.getLogger('pysmiles').setLevel(logging.ERROR)
    logging.getLogger('cgsmiles').setLevel(logging.ERROR)
    return cgsmiles


ERRMAP = [(SyntaxError, 'syntax'), (TypeError, 'type'), (IndexError, 'index'), (KeyError, 'key'),
          (UnboundLocalError, 'unbound'), (LookupError, 'lookup'), (ValueError, 'value'),
          (OSError, 'io'), (AttributeError, 'attr')]


def err_class(exc):
    for typ, name in ERRMAP:
        if isinstance(exc, typ):
            return name
    return 'other'


@contextlib.contextmanager
def quiet():
    """the implementation print()s some caught exceptions; never part of any comparison"""
    old = sys.stdout
    sys.stdout = io.StringIO()
    try:
        yield
    finally:
        sys.stdout = old


# ----------------------------------------------------------------------------------------------
#  canonical dumps (Python graph -> the JSON shape of CGV.Model.Mol)
# ----------------------------------------------------------------------------------------------
def order2(o):
    x = o * 2
    if int(x) != x or x < 0:
        raise Unsupported(f'bond order {o!r}')
    return int(x)


def canon_text(v):
    if isinstance(v, bool):
        return 'True' if v else 'False'
    if isinstance(v, (int, str)):
        return str(v)
    if isinstance(v, float):
        return repr(v)
    if v is None:
        return 'None'
    if isinstance(v, (list, tuple)):
        return '[' + ','.join(canon_text(x) for x in v) + ']'
    return repr(v)


FIELD_KEYS = {'element', 'atomname', 'fragname', 'fragid', 'aromatic', 'charge', 'hcount', 'bonding',
              'mapping', 'single_h_frag'}
SKIP_KEYS = {'_atom_str', '_pos', 'contraction', 'graph'}


def dump_atom(k, d):
    fid = d.get('fragid', [])
    if not isinstance(fid, list):
        fid = []            # templates carry the integer 0; the model assigns membership itself
    extra = []
    ch = d.get('charge', 0)
    if not (isinstance(ch, int) and not isinstance(ch, bool)):
        extra.append(['charge', canon_text(ch)])
        ch = 0
    for key in sorted(x for x in d if isinstance(x, str)):
        if key in FIELD_KEYS or key in SKIP_KEYS:
            continue
        val = d[key]
        if key == 'ez_isomer':
            val = sorted(val)       # appended in a set-iteration order
        extra.append([key, canon_text(val)])
    hc = d.get('hcount', 0)
    return {'k': k, 'el': d.get('element', ''), 'an': d.get('atomname', '') or '',
            'fn': d.get('fragname', '') or '', 'fid': list(fid),
            'ar': bool(d.get('aromatic', False)), 'ha': 'aromatic' in d, 'ch': ch,
            'hc2': order2(hc),
            'bd': list(d.get('bonding', []) or []),
            'mp': [[m[0], m[1]] for m in d.get('mapping', [])],
            'sh': bool(d.get('single_h_frag', False)),
            'x': sorted(extra)}


def dump_template(g):
    """a fragment template as the resolver will iterate it: nodes in the graph's own iteration order (fresh keys are
    handed out in that order), bonds in `G.edges` order"""
    nodes = [dump_atom(k, d) for k, d in g.nodes(data=True)]
    edges = []
    for a, b, d in g.edges(data=True):
        bd = d.get('bonding')
        edges.append([a, b, order2(d.get('order', 1)), [bd[0], bd[1]] if bd else None])
    return {'n': nodes, 'e': edges}


def dump_mol(g, with_bonding=True):
    # sorted by key: the iteration order of the node dict is not part of any property (what depends on it —
    # first-match bonding, RDKit atom indices — shows in bonds / coordinates), so a rewrite that only changes
    # it must not break the correspondence
    nodes = sorted((dump_atom(k, d) for k, d in g.nodes(data=True)), key=lambda a: (str(type(a['k'])), a['k']))
    edges = []
    for a, b, d in g.edges(data=True):
        bd = d.get('bonding')
        lo, hi = (a, b) if a <= b else (b, a)
        edges.append([lo, hi, order2(d.get('order', 1)), [bd[0], bd[1]] if (bd and with_bonding) else None])
    edges.sort(key=lambda e: (e[0], e[1]))
    return {'n': nodes, 'e': edges}


def model_mol_canon(m):
    """the driver's dump of a Mol, brought to the same canonical form as dump_mol"""
    for a in m['n']:
        a['x'] = sorted(a['x'])
    m['n'].sort(key=lambda a: (str(type(a['k'])), a['k']))
    m['e'].sort(key=lambda e: (e[0], e[1]))
    return m


def diff_obj(a, b, path=''):
    """first difference between two JSON-like objects, as text"""
    if type(a) != type(b):
        return f'{path}: {a!r} != {b!r}'
    if isinstance(a, dict):
        for k in sorted(set(a) | set(b)):
            if k not in a or k not in b:
                return f'{path}.{k}: missing on one side ({a.get(k)!r} vs {b.get(k)!r})'
            d = diff_obj(a[k], b[k], f'{path}.{k}')
            if d:
                return d
        return None
    if isinstance(a, list):
        if len(a) != len(b):
            return f'{path}: length {len(a)} != {len(b)} ({a!r} vs {b!r})'[:400]
        for i, (x, y) in enumerate(zip(a, b)):
            d = diff_obj(x, y, f'{path}[{i}]')
            if d:
                return d
        return None
    return None if a == b else f'{path}: {a!r} != {b!r}'


# ----------------------------------------------------------------------------------------------
#  Lean side
# ----------------------------------------------------------------------------------------------
def run(cmd, cwd=None, timeout=3600):
    t0 = time.time()
    p = subprocess.run(cmd, cwd=cwd, stdout=subprocess.PIPE, stderr=subprocess.STDOUT, text=True, timeout=timeout)
    return p.returncode, p.stdout, time.time() - t0


def translate():
    import importlib
    import translate as tr
    importlib.reload(tr)
    res = tr.main()
    res['sections'] = tr.section_defines()
    return res, tr.source_hashes()


def lake_build(targets):
    code, out, secs = run(['lake', 'build'] + list(targets), cwd=LEAN)
    return code == 0, out, secs


FORBIDDEN = re.compile(r'sorry|\badmit\b|^\s*axiom\s|native_decide|bv_decide|implemented_by|\bunsafe\s|maxHeartbeats\s+0')


def scan_forbidden():
    """textual scan of the proof sources (comments stripped) for escape hatches"""
    hits = []
    for root, _, files in os.walk(os.path.join(LEAN, 'CGV')):
        for fn in files:
            if not fn.endswith('.lean') or fn.startswith('Driver'):
                continue
            path = os.path.join(root, fn)
            with open(path) as fh:
                text = fh.read()
            text = re.sub(r'/-.*?-/', lambda m: '\n' * m.group(0).count('\n'), text, flags=re.S)
            for i, line in enumerate(text.split('\n'), 1):
                line = line.split('--')[0]
                if FORBIDDEN.search(line):
                    hits.append(f'{os.path.relpath(path, LEAN)}:{i}: {line.strip()}')
    return hits


def audit(prop):
    """run the property's audit file; returns {theorem: [axioms]} and the raw output"""
    code, out, secs = run(['lake', 'env', 'lean', f'CGV/Audit/{prop}.lean'], cwd=LEAN)
    found = {}
    for m in re.finditer(r"'([^']+)' depends on axioms: \[([^\]]*)\]", out):
        found[m.group(1)] = [a.strip() for a in m.group(2).replace('\n', ' ').split(',') if a.strip()]
    for m in re.finditer(r"'([^']+)' does not depend on any axioms", out):
        found[m.group(1)] = []
    return code == 0, found, out, secs


def gen_deps(prop, theorems):
    """the generated definitions (namespace CGV.Gen) every theorem of the property depends on: `#gen_deps`"""
    path = os.path.join(LEAN, '.lake', f'deps_{prop}.lean')
    with open(path, 'w') as fh:
        fh.write(f'import CGV.Audit.{prop}\nimport CGV.GenDeps\n' + ''.join(f'#gen_deps {t}\n' for t in theorems))
    code, out, _ = run(['lake', 'env', 'lean', path], cwd=LEAN)
    found = {}
    for m in re.finditer(r'gen_deps (\S+): \[(.*?)\]', out, flags=re.S):
        found[m.group(1)] = [x.strip() for x in m.group(2).replace('\n', ' ').split(',') if x.strip()]
    try:
        os.remove(path)
    except OSError:
        pass
    if code != 0 or any(t not in found for t in theorems):
        return None
    return found


def audit_theorems(prop):
    """the theorem names listed in the audit file (what must be discharged)"""
    with open(os.path.join(LEAN, 'CGV', 'Audit', f'{prop}.lean')) as fh:
        text = fh.read()
    return re.findall(r'^#print axioms\s+(\S+)', text, flags=re.M)


class Driver:
    """the compiled model driver, one JSON request per line"""

    def __init__(self):
        exe = os.path.join(LEAN, '.lake', 'build', 'bin', 'driver')
        self.p = subprocess.Popen([exe], stdin=subprocess.PIPE, stdout=subprocess.PIPE, text=True, bufsize=1)

    def ask(self, req):
        self.p.stdin.write(json.dumps(req) + '\n')
        self.p.stdin.flush()
        line = self.p.stdout.readline()
        if not line:
            raise RuntimeError('model driver died')
        return json.loads(line)

    def close(self):
        try:
            self.p.stdin.close()
            self.p.wait(timeout=10)
        except Exception:
            self.p.kill()


# ----------------------------------------------------------------------------------------------
#  known findings
# ----------------------------------------------------------------------------------------------
def load_findings():
    path = os.path.join(VERIF, 'known-findings.txt')
    out = []
    if not os.path.exists(path):
        return out
    with open(path) as fh:
        for line in fh:
            line = line.strip()
            if not line or line.startswith('#'):
                continue
            kind, _, rest = line.partition(':')
            kind = kind.strip()
            fields = dict(re.findall(r'(\w+)=(\S+)', rest.split('::')[0]))
            fields['kind'] = kind
            fields['text'] = rest.split('::', 1)[1].strip() if '::' in rest else rest.strip()
            out.append(fields)
    return out


def stable_hash(obj):
    return hashlib.sha256(json.dumps(obj, sort_keys=True, default=str).encode()).hexdigest()[:12]


def rng_for(seed, *salt):
    return random.Random(f'{seed}:' + ':'.join(str(s) for s in salt))
