"""
The tie of the GENERATED definitions (lean/CGV/Gen) to the code by correspondence.

Normally the tie of these pieces is the translation itself (they are regenerated from /repo's source on every run).
When the source of a piece has left the shape the translator reads, the piece falls back to its hand-kept reference
model (harness/reference/<section>.lean) and the tie becomes what this module runs:

  * for a leaf FUNCTION: a differential run of the real Python function against the Lean definition (driver op
    `genfn`) on an exhaustive small domain plus random inputs;
  * for a TABLE section: the functions that read the table are probed on an exhaustive small domain (every printable
    character in every position the table is consulted for) through the ordinary model operations (`strip`,
    `readcg`, `write`, `anno`) and compared with the implementation.

The function-level runs are cheap and also executed when the translation succeeded (they then validate the
translator); the table probes only run for sections in fallback.  A disagreement is a broken tie for the
properties whose theorems depend on the piece (`#gen_deps`).
"""
import itertools

import lib

PRINTABLE = [chr(c) for c in range(32, 127)]

# section -> the Lean constants it defines is read from the reference text by the translator; here: section -> runner


def _call(fn, *a, **k):
    try:
        return ('ok', fn(*a, **k))
    except (StopIteration, RuntimeError):
        return ('err', 'other')
    except RecursionError:
        raise
    except Exception as err:    # noqa: BLE001
        return ('err', lib.err_class(err))


def _cmp(ctx, suite, case, got, rep, conv=lambda x: x):
    if 'fail' in rep:
        raise RuntimeError('driver protocol failure: ' + rep['fail'])
    if rep.get('err') == 'unsupported':
        ctx.skip_unsupported()
        return
    mod = ('ok', conv(rep['ok'])) if 'ok' in rep else ('err', rep.get('err'))
    if got != mod:
        ctx.disagree(suite, case, f'implementation {got}, generated definition {mod}')


def descs(rng, n):
    kinds = ['$', '!', '<', '>', ' ', 'x', '']
    labels = ['', '', 'A', 'B', 'AB', '1', 'a1']
    out = []
    for _ in range(n):
        k = rng.choice(kinds)
        out.append('' if (k == '' and rng.random() < 0.5) else k + rng.choice(labels) + rng.choice(['1', '1', '2', '0', '', '3', '4']))
    return out


def fn_compatible(ctx, rng, n):
    from cgsmiles.resolve import compatible
    suite = 'generated:compatible'
    small = ['', '$', '$1', '$A1', '$A2', '$B1', '!', '!1', '!A1', '<', '<1', '<A1', '<B1', '>', '>1', '>A1', '>A2', ' 1', 'x1', '$$', '<>']
    cases = [(a, b, lg) for a in small for b in small for lg in (True, False)]
    for _ in range(n):
        a, b = descs(rng, 2)
        if rng.random() < 0.3 and a:
            b = {'<': '>', '>': '<'}.get(a[0], a[0]) + a[1:]
        cases.append((a, b, rng.random() < 0.5))
    for a, b, lg in cases:
        got = _call(compatible, a, b, legacy=lg)
        got = (got[0], bool(got[1])) if got[0] == 'ok' else got
        ctx.count(suite, (a[:1], b[:1], a[1:] == b[1:], lg), sample=[a, b, lg])
        if not ctx.oracle_only:
            _cmp(ctx, suite, ['compatible', a, b, lg], got,
                 ctx.model({'op': 'genfn', 'fn': 'compatible', 'left': a, 'right': b, 'legacy': lg}))


def fn_format_bonding(ctx, rng, n):
    from cgsmiles.write_cgsmiles import format_bonding
    suite = 'generated:format_bonding'
    atoms = ['$1', '$A1', '>2', '<b0', '!3', '$4', '$5', '$', '', '1', '$A', '>x1.5', '$1.5', '<9']
    cases = [[a] for a in atoms] + [[a, b] for a in atoms[:8] for b in atoms[:8]]
    for _ in range(n):
        cases.append([rng.choice('$<>!') + rng.choice(['', 'A', 'b1']) + rng.choice('0123401') for _ in range(rng.randint(0, 4))])
    for c in cases:
        got = _call(format_bonding, list(c))
        ctx.count(suite, lib.stable_hash(c), sample=c)
        if not ctx.oracle_only:
            _cmp(ctx, suite, ['format_bonding', c], got, ctx.model({'op': 'genfn', 'fn': 'format_bonding', 'bonding': c}))


def fn_find_complementary(ctx, rng, n):
    from cgsmiles.cgsmiles_utils import find_complementary_bonding_descriptor as f
    suite = 'generated:find_complementary'
    pool = ['$1', '$A1', '$A2', '$B1', '<1', '>1', '<A1', '>A1', '>A2', '!1', '!A1', '$', '<', '']
    cases = [(d, []) for d in pool] + [(d, [e]) for d in pool for e in pool]
    for _ in range(n):
        cases.append((rng.choice(pool + descs(rng, 2)), [rng.choice(pool) for _ in range(rng.randint(0, 5))]))
    for d, el in cases:
        got = _call(f, d, list(el))
        got = (got[0], list(got[1])) if got[0] == 'ok' else got
        ctx.count(suite, lib.stable_hash([d, el]), sample=[d, el])
        if not ctx.oracle_only:
            _cmp(ctx, suite, ['find_complementary', d, el], got,
                 ctx.model({'op': 'genfn', 'fn': 'find_complementary', 'desc': d, 'eligible': el}))


def fn_set_bond_order_defaults(ctx, rng, n):
    from cgsmiles.sample import _set_bond_order_defaults as f
    suite = 'generated:set_bond_order_defaults'
    pool = ['$', '$1', '$A', '$A2', '<', '>b', '>b3', '!', '!1', 'x', '1', '$0', '']
    cases = [[p] for p in pool] + [[a, b] for a in pool for b in pool]
    for _ in range(n):
        cases.append([rng.choice(pool) for _ in range(rng.randint(0, 5))])
    for c in cases:
        got = _call(f, list(c))
        got = (got[0], list(got[1])) if got[0] == 'ok' else got
        ctx.count(suite, lib.stable_hash(['l', c]), sample=c)
        if not ctx.oracle_only:
            _cmp(ctx, suite, ['set_bond_order_defaults(list)', c], got,
                 ctx.model({'op': 'genfn', 'fn': 'set_bond_order_defaults_list', 'bonding': c}))
        # the dict branch: keys in insertion order, later equal keys (after the default digit is added) overwrite
        d, pairs = {}, []
        for i, k in enumerate(c):
            if k not in d:
                d[k] = i
        pairs = [[k, v] for k, v in d.items()]
        got = _call(f, dict(d))
        got = (got[0], [[k, v] for k, v in got[1].items()]) if got[0] == 'ok' else got
        ctx.count(suite, lib.stable_hash(['d', pairs]), sample=pairs)
        if not ctx.oracle_only:
            _cmp(ctx, suite, ['set_bond_order_defaults(dict)', pairs], got,
                 ctx.model({'op': 'genfn', 'fn': 'set_bond_order_defaults_dict', 'bonding': pairs}), conv=lambda x: [list(p) for p in x])


def fn_find_next_character(ctx, rng, n):
    from cgsmiles.read_cgsmiles import _find_next_character as f
    suite = 'generated:find_next_character'
    alpha = '[](){}|.=#$-AB1%'
    cases = []
    for s in ['', '[', '[#A]', '[#A]([#B])', '{[#A]|2}', '))', 'abc']:
        for chars in (['['], [')', '('], [], ['[', ')', '(', '}'], list('.-=#$')):
            for start in range(0, len(s) + 2):
                cases.append((s, chars, start))
    for _ in range(n):
        s = ''.join(rng.choice(alpha) for _ in range(rng.randint(0, 12)))
        cases.append((s, rng.sample(list(alpha), rng.randint(0, 4)), rng.randint(0, len(s) + 1)))
    for s, chars, start in cases:
        got = _call(f, s, list(chars), start)
        ctx.count(suite, lib.stable_hash([s, chars, start]), sample=[s, chars, start])
        if not ctx.oracle_only:
            _cmp(ctx, suite, ['_find_next_character', s, chars, start], got,
                 ctx.model({'op': 'genfn', 'fn': 'find_next_character', 'string': s, 'chars': chars, 'start': start}))


FUNCTIONS = {'fn-compatible': fn_compatible, 'fn-format_bonding': fn_format_bonding,
             'fn-find_complementary': fn_find_complementary, 'fn-set_bond_order_defaults': fn_set_bond_order_defaults,
             'fn-find_next_character': fn_find_next_character}


# ----------------------------------------------------------------------------------------------
#  table probes (sections in fallback only)
# ----------------------------------------------------------------------------------------------
def probe_read_fragments(ctx, rng):
    """bond_to_order, descriptor kinds, two-letter elements, pass-through and E/Z characters: every printable character
    alone, in second position after an atom / a bond symbol / an opening bracket, and between atom and descriptor"""
    from props import c13
    suite = 'generated:tables-read_fragments'
    texts = set()
    for c in PRINTABLE:
        texts.update([c, 'C' + c, c + 'C', 'C' + c + 'C', '[' + c + ']', '[' + c + 'a]C', 'C' + c + '[$]', 'C[$]' + c + 'C',
                      '[$]' + c + 'C', 'C' + c + '1CC1', 'C(' + c + 'C)C'])
        for d in PRINTABLE:
            if c.isalpha() and d.isalpha():
                texts.update([c + d, c + d + '[$]', 'C' + c + d + '[$a]'])
    for t in sorted(texts):
        c13.compare(ctx, suite, t, oracle=False)


def probe_read_cgsmiles(ctx, rng):
    """symbol_to_order, default bond order, the characters after a node and the stop characters of the scans: every
    printable character between two nodes, before/after ring markers, parentheses and multipliers"""
    import suites
    suite = 'generated:tables-read_cgsmiles'
    texts = set()
    for c in PRINTABLE:
        texts.update(['{[#A]' + c + '[#B]}', '{[#A]1' + c + '[#B]1}', '{[#A]' + c + '1[#B]1}', '{[#A](' + c + '[#B])[#C]}',
                      '{[#A]([#B])' + c + '[#C]}', '{[#A]|2' + c + '[#B]}', '{[#A]([#B]' + c + ')|2[#C]}', '{[#A]' + c + '}',
                      '{' + c + '[#A]}', '{[#A]%12' + c + '[#B]%12}'])
        for d in '.-=#$':
            texts.update(['{[#A]' + c + d + '[#B]}', '{[#A]' + d + c + '[#B]}'])
    for t in sorted(texts):
        suites.run_read_case(ctx, suite, t, nontrivial=True)


def probe_write_cgsmiles(ctx, rng):
    """order_to_symbol: two-node graphs and a three-ring with every order 0..4 (and orders outside the table)"""
    import networkx as nx
    import suites
    suite = 'generated:tables-write_cgsmiles'
    for o in [0, 1, 2, 3, 4, 1.5, 5, 6, 2.5]:
        for ring in (False, True):
            g = nx.Graph()
            g.add_node(0, fragname='A')
            g.add_node(1, fragname='B')
            g.add_edge(0, 1, order=o)
            if ring:
                g.add_node(2, fragname='C')
                g.add_edge(1, 2, order=1)
                g.add_edge(2, 0, order=o)
            try:
                suites.run_write_case(ctx, suite, g, {'kind': 'write-probe', 'order': o, 'ring': ring})
            except lib.Unsupported:
                ctx.skip_unsupported()


def probe_dialects(ctx, rng):
    """the two dialect signatures, renames, separators: every parameter by position and by (short and full) name, unknown
    names, every printable character as separator / assignment candidate"""
    from props import c14
    suite = 'generated:tables-dialects'
    names = ['fragname', 'q', 'w', 'c', 'x', 'y', 'z', 'charge', 'weight', 'chirality', 'element', 'mass', 'foo', 'Q', '']
    vals = ['1', '-0.5', 'A', '', '1e2', 'S', '+1']
    texts = set()
    for nme in names:
        for v in vals:
            texts.update([f'{nme}={v}', f'A;{nme}={v}', f'{v};{nme}={v}', f'A;{v};{v};{nme}={v}'])
    for c in PRINTABLE:
        texts.update([f'A{c}1', f'A;q{c}1', f'A{c}q=1'])
    for v in itertools.product(vals[:4], repeat=3):
        texts.add(';'.join(v))
        texts.add('A;' + ';'.join(v) + ';' + v[0])
    import suites
    for t in sorted(texts):
        for dialect in ('base', 'frag'):
            got = c14.parse(dialect, t)
            ctx.count(suite, lib.stable_hash([dialect, t]), sample=[dialect, t])
            if ctx.oracle_only:
                continue
            rep = ctx.model({'op': 'anno', 'dialect': dialect, 's': t})
            if rep.get('err') == 'unsupported':
                ctx.skip_unsupported()
            elif got[0] == 'ok':
                if 'ok' not in rep:
                    ctx.disagree(suite, [dialect, t], f'implementation parses {got[1]}, model raises {rep.get("err")}')
                else:
                    a = sorted([k, suites.canon_attr_val(v)] for k, v in got[1].items())
                    b = sorted([k, suites.model_attr_val(v)] for k, v in rep['ok'])
                    if a != b:
                        ctx.disagree(suite, [dialect, t], f'implementation {a} model {b}')
            elif 'ok' in rep or rep.get('err') != got[1]:
                ctx.disagree(suite, [dialect, t], f'implementation raises {got[1]}, model {rep}')


TABLES = {'tables-read_fragments': probe_read_fragments, 'tables-read_cgsmiles': probe_read_cgsmiles,
          'tables-write_cgsmiles': probe_write_cgsmiles, 'tables-dialects': probe_dialects}
# (tables-rdkit = BOND_TYPE_MAP: the C18 round trip through RDKit is its correspondence; no separate probe)


def run(ctx, fallbacks, relevant):
    """`fallbacks`: sections in fallback (translator result); `relevant`: the sections whose definitions the property's
    theorems depend on.  Function sections that are relevant are always run (cheap); table probes only in fallback."""
    rng = ctx.rng('generated')
    n = 300 if ctx.tier == 'quick' else 3000
    for sec in sorted(relevant):
        if sec in FUNCTIONS:
            FUNCTIONS[sec](ctx, rng, n)
            ctx.feature('generated-tie:' + sec + (':fallback' if sec in fallbacks else ':translated'))
        elif sec in fallbacks and sec in TABLES:
            TABLES[sec](ctx, rng)
            ctx.feature('generated-tie:' + sec + ':fallback')
