#!/venv/bin/python
"""
Seeded changes (DESIGN §10): confirm a candidate in a scratch worktree, keep it under
/verif/seeded/<name>/, run the registered checks against it in /repo (apply, check, undo), and
print the table of which check catches which change.

  seeded.py confirm <candidate-dir> <name> <property>     candidate-dir holds patch.diff, demo.py, note.md
  seeded.py run <name> [tier] [check ids ...]             default: quick, the change's own property
  seeded.py runall [tier]                                 every kept change against its own property
  seeded.py cross <name> [tier]                           the change against every registered check
  seeded.py table                                         markdown table from the recorded results
Nothing here is registered in MANIFEST.json; it is the self-test of the machinery.
"""
import json
import os
import re
import shutil
import subprocess
import sys
import time

VERIF = os.path.dirname(os.path.dirname(os.path.abspath(__file__)))
REPO = os.environ.get('CGV_REPO', '/repo')
SEEDED = os.environ.get('CGV_SEEDED', os.path.join(VERIF, 'seeded'))
ENV = dict(os.environ, PBR_VERSION='0')


def sh(cmd, cwd=None, timeout=1800):
    p = subprocess.run(cmd, shell=True, cwd=cwd, env=ENV, stdout=subprocess.PIPE, stderr=subprocess.STDOUT, text=True, timeout=timeout)
    return p.returncode, p.stdout


def confirm(src, name, prop):
    scratch = '/tmp/cgv-confirm-%d' % os.getpid()
    rc, out = sh(f'git -C {REPO} worktree add -q --detach {scratch} HEAD')
    if rc:
        print(out)
        return 2
    res = {}
    try:
        patch = os.path.join(src, 'patch.diff')
        demo = os.path.join(src, 'demo.py')
        rc, out = sh(f'/venv/bin/python {demo}', cwd=scratch)
        res['demo_pristine'] = (rc, out.strip().splitlines()[-3:] if out.strip() else [])
        rc, out = sh(f'git apply {patch}', cwd=scratch)
        if rc:
            print('patch does not apply:', out)
            return 1
        rc, out = sh('/venv/bin/python -m pytest -q -p no:cacheprovider --timeout=900', cwd=scratch)
        res['tests'] = out.strip().splitlines()[-1] if out.strip() else ''
        rc2, out2 = sh(f'/venv/bin/python {demo}', cwd=scratch)
        res['demo_patched'] = (rc2, out2.strip().splitlines()[-3:] if out2.strip() else [])
        rc3, out3 = sh('git diff --stat', cwd=scratch)
        res['stat'] = out3.strip().splitlines()
    finally:
        sh(f'git -C {REPO} worktree remove --force {scratch}')
        shutil.rmtree(scratch, ignore_errors=True)
    ok = (res['demo_pristine'][0] == 0 and res['demo_patched'][0] == 1 and
          re.search(r'\b150 passed', res['tests']) and 'failed' not in res['tests'])
    print(json.dumps(res, indent=1))
    if not ok:
        print('NOT CONFIRMED')
        return 1
    dst = os.path.join(SEEDED, name)
    os.makedirs(dst, exist_ok=True)
    shutil.copy(patch, os.path.join(dst, 'patch.diff'))
    shutil.copy(demo, os.path.join(dst, 'demo.py'))
    note = ''
    if os.path.exists(os.path.join(src, 'note.md')):
        note = open(os.path.join(src, 'note.md')).read()
        shutil.copy(os.path.join(src, 'note.md'), os.path.join(dst, 'note.md'))
    meta = {'name': name, 'property': prop, 'origin': 'sub-agent given only the property text and a scratch worktree',
            'confirmed': {'tests_with_patch': res['tests'], 'demo_on_pristine_tree': res['demo_pristine'][1][-1:] or '',
                          'demo_on_patched_tree': res['demo_patched'][1][-1:] or ''},
            'files_touched': res['stat'], 'summary': note.strip().splitlines()[:3]}
    with open(os.path.join(dst, 'meta.json'), 'w') as fh:
        json.dump(meta, fh, indent=1)
    print('CONFIRMED ->', dst)
    return 0


def repo_clean():
    rc, out = sh(f'git -C {REPO} status --porcelain')
    return out.strip() == ''


def run(name, tier='quick', checks=None):
    dst = os.path.join(SEEDED, name)
    meta = json.load(open(os.path.join(dst, 'meta.json')))
    checks = checks or [meta['property']]
    if not repo_clean():
        print('refusing: /repo has uncommitted changes')
        return 2
    rc, out = sh(f'git -C {REPO} apply {os.path.join(dst, "patch.diff")}')
    if rc:
        print('patch does not apply to /repo:', out)
        return 2
    results = {}
    # evidence written while the patch is applied describes the patched tree: put the files back afterwards
    saved = {}
    for c in checks:
        ep = os.path.join(VERIF, 'evidence', c + '.json')
        if os.path.exists(ep):
            saved[ep] = open(ep).read()
    try:
        for c in checks:
            t0 = time.time()
            rc, out = sh(f'./check {c} {tier}', cwd=VERIF, timeout=7200)
            viol = [l for l in out.splitlines() if l.startswith('VIOLATION')]
            detail = None
            if viol:
                m = re.search(r'replay=(\S+)', viol[0])
                if m and os.path.exists(os.path.join(VERIF, m.group(1))):
                    try:
                        rp = json.load(open(os.path.join(VERIF, m.group(1))))
                        detail = {'what': rp.get('what'), 'input': (rp.get('case') or {}).get('s') if isinstance(rp.get('case'), dict) else None,
                                  'proof_problems': rp.get('proof_problems'), 'broken': len(rp.get('broken_correspondence') or [])}
                    except Exception as err:   # noqa: BLE001
                        detail = {'unreadable': str(err)}
            results[c] = {'exit': rc, 'violation': viol[:2], 'detail': detail, 'seconds': round(time.time() - t0, 1),
                          'last': out.strip().splitlines()[-1] if out.strip() else ''}
            print(name, c, tier, 'exit', rc, '|', (viol[0] if viol else 'no violation'), '|', (detail or {}).get('what'))
    finally:
        sh(f'git -C {REPO} checkout -- .')
        for ep, text in saved.items():
            with open(ep, 'w') as fh:
                fh.write(text)
    rp = os.path.join(dst, 'result.json')
    old = json.load(open(rp)) if os.path.exists(rp) else {}
    old.setdefault(tier, {}).update(results)
    with open(rp, 'w') as fh:
        json.dump(old, fh, indent=1)
    return 0


def registered():
    man = json.load(open(os.path.join(VERIF, 'MANIFEST.json')))
    return [c['property_id'] for c in man['checks']]


def table():
    rows = []
    for name in sorted(os.listdir(SEEDED)):
        mp = os.path.join(SEEDED, name, 'meta.json')
        if not os.path.exists(mp):
            continue
        meta = json.load(open(mp))
        res = {}
        rp = os.path.join(SEEDED, name, 'result.json')
        if os.path.exists(rp):
            res = json.load(open(rp))
        own = meta['property']
        q = res.get('quick', {})
        t = res.get('thorough', {})

        def cell(r):
            if not r:
                return '-'
            if r['exit'] == 1 and r['violation']:
                return 'caught, no-failing-input-found' if 'no-failing-input-found' in r['violation'][0] else 'caught, failing input'
            if r['exit'] == 0:
                return 'MISSED'
            return f'exit {r["exit"]}'
        files = ' '.join(sorted({l.split('|')[0].strip().replace('cgsmiles/', '') for l in meta.get('files_touched', [])[:-1]}))
        what = ((q.get(own) or {}).get('detail') or {}).get('what') or ''
        what = what.replace('|', '/').replace('\n', ' ')[:90]
        others = sorted(c for c, r in q.items() if c != own and r['exit'] == 1)
        rows.append(f'| {name} | {files} | {cell(q.get(own))} | {cell(t.get(own))} | {what} | {" ".join(others)} |')
    print('| change | file | own check, quick | thorough | reported as | other checks (quick) that also report it |')
    print('|---|---|---|---|---|---|')
    print('\n'.join(rows))


def main():
    a = sys.argv[1:]
    if not a:
        print(__doc__)
        return 2
    if a[0] == 'confirm':
        return confirm(a[1], a[2], a[3])
    if a[0] == 'run':
        tier = a[2] if len(a) > 2 else 'quick'
        return run(a[1], tier, a[3:] or None)
    if a[0] == 'runall':
        tier = a[1] if len(a) > 1 else 'quick'
        for name in sorted(os.listdir(SEEDED)):
            if os.path.exists(os.path.join(SEEDED, name, 'meta.json')):
                run(name, tier)
        return 0
    if a[0] == 'cross':
        tier = a[2] if len(a) > 2 else 'quick'
        return run(a[1], tier, registered())
    if a[0] == 'table':
        table()
        return 0
    print(__doc__)
    return 2


if __name__ == '__main__':
    sys.exit(main())
