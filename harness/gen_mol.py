"""
Generators for molecules, their fragmentations and the CGsmiles descriptions of those
(`mol` suite of DESIGN §5).  Everything derives from the `random.Random` handed in.

A *case* is a JSON-serialisable dict so that every failing input can be stored and replayed.
"""
import collections
import networkx as nx

VAL = {'C': 4, 'N': 3, 'O': 2, 'S': 2, 'P': 3, 'F': 1, 'Cl': 1, 'Br': 1}
SYM = {0: '.', 1: '', 2: '=', 3: '#', 4: '$', 1.5: ''}
DSYM = {**SYM, 1.5: ':', 'dash': '-'}     # ('dash': a single bond written with its explicit symbol)     # in front of a bonding descriptor the aromatic symbol is written out


def rnd_mol(rng, n, aromatic_p=0.3, charged_p=0.1, pyrrole_p=0.0, biaryl_p=0.0, thio_p=0.0, hetero_p=0.0):
    """valence-respecting random molecule over the organic subset.
    nodes: element, charge, aromatic, h (hydrogens required); edges: order (1,2,3, 1.5 in aromatic rings)"""
    g = nx.Graph()
    free = {}

    def add(el, charge=0):
        i = len(g)
        g.add_node(i, element=el, charge=charge, aromatic=False)
        v = VAL[el]
        if el == 'N' and charge == 1:
            v = 4
        if el == 'O' and charge == -1:
            v = 1
        free[i] = v
        return i

    if pyrrole_p and rng.random() < pyrrole_p and n >= 5:
        # pyrrole-type five-membered ring: [nH] contributes its lone pair, the ring is aromatic
        # (written in lower case; pysmiles reports it kekulised — no delocalisation-induced equivalence — so the
        # reference carries the localised orders N-C=C-C=C-N and `lower` only steers the rendering)
        ring = [add('N')] + [add('C') for _ in range(4)]
        for (a, b), o in zip(zip(ring, ring[1:] + ring[:1]), [1, 2, 1, 2, 1]):
            g.add_edge(a, b, order=o, pyrrole_ring=True)
        for r in ring:
            g.nodes[r]['lower'] = True
            free[r] -= 3
        g.nodes[ring[0]]['pyrrole'] = True
        free[ring[0]] = 1          # the hydrogen on the nitrogen; it is written ([nH]) and never substituted
    elif rng.random() < aromatic_p and n >= 6:
        ring = [add(rng.choice(['C', 'C', 'C', 'N'])) for _ in range(6)]
        ns = [r for r in ring if g.nodes[r]['element'] == 'N']
        for r in ns[1:]:
            g.nodes[r]['element'] = 'C'
            free[r] = 4
        for i, (a, b) in enumerate(zip(ring, ring[1:] + ring[:1])):
            g.add_edge(a, b, order=1.5, kek=2 if i % 2 == 0 else 1)
        for r in ring:
            g.nodes[r]['aromatic'] = True
            free[r] -= 3
        if biaryl_p and rng.random() < biaryl_p and n >= 12:
            # a second aromatic ring on an aromatic carbon of the first: the bond between the rings is a SINGLE bond
            # between two aromatic atoms (written '-'; not part of a ring, so it is not re-perceived as aromatic)
            cs = [r for r in ring if g.nodes[r]['element'] == 'C']
            ring2 = [add('C') for _ in range(6)]
            for a, b in zip(ring2, ring2[1:] + ring2[:1]):
                g.add_edge(a, b, order=1.5)
            for r in ring2:
                g.nodes[r]['aromatic'] = True
                free[r] -= 3
            a = rng.choice(cs)
            g.add_edge(a, ring2[0], order=1)
            free[a] -= 1
            free[ring2[0]] -= 1
        if thio_p and rng.random() < thio_p:
            # a thioether on the ring: written 'Sc…' whenever the sulfur comes first ('Sc' is also an element symbol)
            cs = [r for r in ring if g.nodes[r]['element'] == 'C' and free[r] >= 1]
            if cs:
                a = rng.choice(cs)
                b = add('S')
                g.add_edge(a, b, order=1)
                free[a] -= 1
                free[b] -= 1
    else:
        add('C')
    while len(g) < n:
        cands = [i for i in g if free[i] >= 1 and not g.nodes[i].get('pyrrole')]
        if not cands:
            break
        a = rng.choice(cands)
        el = rng.choice(['C', 'C', 'C', 'C', 'N', 'O', 'S', 'F', 'Cl', 'Br', 'P'])
        if hetero_p and rng.random() < hetero_p:
            el = rng.choice(['N', 'O'])     # (second stream draw only when asked for: other callers keep their cases)
        ch = 0
        if rng.random() < charged_p and el in 'NO':
            ch = 1 if el == 'N' else -1
        b = add(el, ch)
        o = 1
        m = min(free[a], free[b])
        if m >= 2 and rng.random() < 0.25:
            o = 2
        if m >= 3 and rng.random() < 0.15:
            o = 3
        g.add_edge(a, b, order=o)
        free[a] -= o
        free[b] -= o
    for _ in range(rng.choice([0, 0, 1, 1, 2])):
        cands = [i for i in g if free[i] >= 1 and not g.nodes[i]['aromatic'] and not g.nodes[i].get('pyrrole')]
        rng.shuffle(cands)
        done = False
        for a in cands:
            for b in cands:
                if a < b and not g.has_edge(a, b) and nx.shortest_path_length(g, a, b) >= 2:
                    g.add_edge(a, b, order=1)
                    free[a] -= 1
                    free[b] -= 1
                    done = True
                    break
            if done:
                break
    for i in g:
        g.nodes[i]['h'] = free[i]
    return g


WEIGHT_TEXTS = ['0', '0.5', 'w=2', 'w=0', '0.0', '1', 'w=0.25;tag=t']


def low(d):
    # (an aromatic atom of a ring written in Kekule form is upper case)
    return bool((d['aromatic'] and not d.get('kekule')) or d.get('lower'))


def atom_str(d, anno=None):
    el = d['element']
    if anno:
        h = d['h'] if (d['charge'] != 0 or (low(d) and el != 'C')) else 0
        hs = '' if h == 0 else ('H' if h == 1 else 'H%d' % h)
        cs = '' if d['charge'] == 0 else ('+' if d['charge'] > 0 else '-')
        return '[%s%s%s;%s]' % (el.lower() if low(d) else el, hs, cs, anno)
    if d.get('pyrrole'):
        return '[nH]'
    if d['charge'] == 0:
        return el.lower() if low(d) else el
    h = d['h']
    hs = '' if h == 0 else ('H' if h == 1 else 'H%d' % h)
    cs = '+' if d['charge'] > 0 else '-'
    return '[%s%s%s]' % (el.lower() if low(d) else el, hs, cs)


def render_frag(rng, g, nodes, desc, atom_text=None, anno_p=0.0):
    """render the induced subgraph on `nodes` as SMILES with descriptors desc[node] = [(text, order)];
    random start atom, random neighbour order, random ring digits, descriptors before or after ring digits"""
    sub = g.subgraph(nodes)
    start = rng.choice(sorted(nodes))
    visited = set()
    ring_edges = {}
    order_nb = {n: rng.sample(sorted(sub[n]), len(sub[n])) for n in sub}
    parent = {start: None}
    tree = collections.defaultdict(list)

    def dfs(u):
        visited.add(u)
        for v in order_nb[u]:
            if v not in visited:
                parent[v] = u
                tree[u].append(v)
                dfs(v)
            elif v != parent[u] and frozenset((u, v)) not in ring_edges:
                ring_edges[frozenset((u, v))] = None
    dfs(start)
    digits = list(range(1, 10))
    rng.shuffle(digits)
    rid = {}
    # now and then all ring closures of a fragment are written with two-digit markers ('%10', '%11', ...)
    two_digit = bool(ring_edges) and not atom_text and rng.random() < 0.15
    for k, e in enumerate(ring_edges):
        rid[e] = (10 + k) if two_digit else (digits[k] if k < 9 else 10 + k)

    def mark(r):
        return str(r) if r < 10 else '%%%d' % r

    def dstr(n):
        s = ''
        for (txt, o) in desc.get(n, []):
            s += DSYM[o] + '[' + txt + ']'
        return s
    opened = set()

    def emit(u):
        anno = rng.choice(WEIGHT_TEXTS) if (anno_p and rng.random() < anno_p) else None
        s = atom_text[u] if atom_text else atom_str(g.nodes[u], anno)
        rs = ''
        for e in ring_edges:
            if u in e:
                o = g.edges[tuple(e)]['order']
                if 'kek' in g.edges[tuple(e)] and g.nodes[u].get('kekule'):
                    o = g.edges[tuple(e)]['kek']
                first = rid[e] not in opened
                if first:
                    opened.add(rid[e])
                sym = SYM[o] if (first and o in (2, 3)) else ''
                if g.edges[tuple(e)].get('pyrrole_ring'):
                    sym = ''            # bonds of a ring written in lower case carry no symbol
                rs += sym + mark(rid[e])
        d = dstr(u)
        kids = tree[u]
        # descriptors directly after the atom (before or after its ring digits) or after some of its branches
        # (an atom with two or more branches gets its descriptors behind them more often: 'X(..)(..)[$]')
        late = len(kids) > 0 and bool(d) and rng.random() < (0.6 if len(kids) >= 2 else 0.3)
        bracket_all = late and rng.random() < 0.4
        nbr = len(kids) if bracket_all else len(kids) - 1
        after = (nbr if rng.random() < 0.5 else rng.randint(1, nbr)) if (late and nbr >= 1) else None
        if u == start and d and after is None and rng.random() < 0.25:
            # the first atom's descriptors written in front of it: '[$]=C...' (the order symbol follows the descriptor)
            s = ''.join('[' + txt + ']' + DSYM[o] for (txt, o) in desc.get(u, [])) + s + rs
        elif after is None:
            if d and rs and rng.random() < 0.5:
                s += d + rs
            else:
                s += rs + d
        else:
            s += rs
        if anno_p and not atom_text and g.nodes[u].get('h', 0) >= 1 and g.nodes[u]['charge'] == 0 \
                and not g.nodes[u].get('pyrrole') and rng.random() < anno_p / 2:
            # (not for '[nH]': a bracket atom states its hydrogens itself, a written-out one would be an extra one)
            # one of the atom's hydrogens written out with its own weight
            s += '([H;%s])' % rng.choice(['0', '0.5', 'w=0', '2'])
        for i, v in enumerate(kids):
            o = g.edges[u, v]['order']
            if 'kek' in g.edges[u, v] and g.nodes[u].get('kekule'):
                o = g.edges[u, v]['kek']            # ring written in Kekule form: alternating single / double bonds
            sym = SYM[o]
            if g.edges[u, v].get('pyrrole_ring'):
                sym = ''
            elif o == 1 and low(g.nodes[u]) and low(g.nodes[v]):
                sym = '-'
            body = sym + emit(v)
            s += '(' + body + ')' if i < nbr else body
            if after is not None and i + 1 == after:
                s += d
        return s
    return emit(start)


def partition(rng, g, nfrag):
    n = len(g)
    nodes = list(g)
    rng.shuffle(nodes)
    seeds = nodes[:nfrag]
    part = {s: i for i, s in enumerate(seeds)}
    while len(part) < n:
        u = rng.choice([x for x in part if any(v not in part for v in g[x])])
        v = rng.choice([v for v in g[u] if v not in part])
        part[v] = part[u]
    return part


def render_base(rng, base, names, virtual=0):
    """write a base graph (nodes 0..k-1, edge attr order) as a CGsmiles graph string with a random
    DFS (start node, neighbour order, ring ids), optionally sprinkling virtual nodes `[#V]` attached
    by zero-order bonds. Returns (string, list mapping string position -> base node or None)."""
    order_of_appearance = []
    comps = [sorted(c) for c in nx.connected_components(base)]
    rng.shuffle(comps)
    out = ''
    ringid = [0]
    used_virtual = [0]

    def maybe_virtual():
        if used_virtual[0] < virtual and rng.random() < 0.3:
            used_virtual[0] += 1
            order_of_appearance.append(None)
            return True
        return False
    for ci, comp in enumerate(comps):
        sub = base.subgraph(comp)
        start = rng.choice(comp)
        visited = set()
        parent = {start: None}
        tree = collections.defaultdict(list)
        rings = {}
        nb = {n: rng.sample(sorted(sub[n]), len(sub[n])) for n in sub}

        def dfs(u):
            visited.add(u)
            for v in nb[u]:
                if v not in visited:
                    parent[v] = u
                    tree[u].append(v)
                    dfs(v)
                elif v != parent[u] and frozenset((u, v)) not in rings:
                    ringid[0] += 1
                    rings[frozenset((u, v))] = ringid[0]
        dfs(start)
        opened = set()
        if rings and rng.random() < 0.2:
            # some ring bonds of the base graph get two-digit markers ('%10', '%11', ...)
            for e in list(rings):
                if rng.random() < 0.6:
                    rings[e] += 9

        def emit(u):
            order_of_appearance.append(u)
            s = '[#%s]' % names[u]
            marks = []
            for e, r in rings.items():
                if u in e:
                    o = base.edges[tuple(e)]['order']
                    first = r not in opened
                    if first:
                        opened.add(r)
                    marks.append((SYM[o] if first else '') + (str(r) if r < 10 else '%%%d' % r))
            # bare single digits first: a digit directly behind '%nn' would be read as part of that marker
            marks.sort(key=lambda m: not m[0].isdigit())
            s += ''.join(marks)
            if maybe_virtual():
                s += '.([#V])'           # the bond symbol stands in front of the parenthesis
            kids = tree[u]
            for i, v in enumerate(kids):
                o = base.edges[u, v]['order']
                if i < len(kids) - 1:
                    s += SYM[o] + '(' + emit(v) + ')'
                else:
                    s += SYM[o] + emit(v)
            return s
        piece = emit(start)
        if ci > 0:
            out += '.'
        elif maybe_virtual():
            out += '[#V].'
        out += piece
    while used_virtual[0] < virtual:
        used_virtual[0] += 1
        order_of_appearance.append(None)
        out += '.[#V]'
    return '{' + out + '}', order_of_appearance


def cut_description(rng, g, nfrag, kinds=('$', '><'), share_p=0.0, label_p=1.0, anno_p=0.0, arom_sym_p=0.0):
    """fragment `g` into `nfrag` connected fragments; every cut bond becomes a uniquely labelled pair
    of complementary descriptors carrying the bond's order (1 for aromatic bonds), or — with
    probability share_p — is replaced by sharing its end atom (squash operator)."""
    part = partition(rng, g, nfrag)
    desc = collections.defaultdict(list)
    base = nx.Graph()
    base.add_nodes_from(range(nfrag))
    ext = g.copy()          # shared atoms are added as extra copies
    members = collections.defaultdict(list)
    for k, v in part.items():
        members[v].append(k)
    lab = 0
    nshared = 0
    shared_kinds = []
    for a, b, o in list(g.edges(data='order')):
        if part[a] == part[b]:
            continue
        if rng.random() < 0.5:
            a, b = b, a               # which end is copied into the other fragment when the bond is replaced by sharing
        lab += 1
        L = 'L%d' % lab if rng.random() < label_p else ''
        oo = 1 if (o == 1.5 or g.edges[a, b].get('pyrrole_ring')) else o
        if arom_sym_p and o == 1.5 and not g.edges[a, b].get('pyrrole_ring') \
                and not (g.nodes[a].get('kekule') or g.nodes[b].get('kekule')) and rng.random() < arom_sym_p:
            oo = 1.5        # the cut aromatic bond written with its symbol on both sides: 'c:[$]'
        oa = ob = oo
        if arom_sym_p and oo == 1:
            # a single-bond cut written with the explicit symbol on either side (independently): 'CC-[$a]'
            oa = 'dash' if rng.random() < 0.4 else 1
            ob = 'dash' if rng.random() < 0.4 else 1
        if rng.random() < share_p:
            # fragment of `a` gets a copy b' of b, bonded to a; b' and b carry the '!' pair
            bp = len(ext)
            ext.add_node(bp, **g.nodes[b])
            ext.nodes[bp]['h'] = 0
            ext.nodes[bp]['copy_of'] = b
            ext.add_edge(a, bp, order=o)
            members[part[a]].append(bp)
            desc[bp].append(('!' + L, 1))
            desc[b].append(('!' + L, 1))
            nshared += 1
            if g.nodes[b]['aromatic']:
                shared_kinds.append('aromatic-ring-bond' if o == 1.5 else 'aromatic-substituent-bond')
            else:
                shared_kinds.append('aliphatic')
        elif rng.choice(kinds) == '$':
            desc[a].append(('$' + L, oa))
            desc[b].append(('$' + L, ob))
        else:
            desc[a].append(('>' + L, oa))
            desc[b].append(('<' + L, ob))
        fa, fb = part[a], part[b]
        if base.has_edge(fa, fb):
            base.edges[fa, fb]['order'] += 1
        else:
            base.add_edge(fa, fb, order=1)
    for k in desc:
        rng.shuffle(desc[k])
    frag_text = {}
    for i in range(nfrag):
        # cut bonds replaced by sharing keep the edge a-b' inside the fragment of a
        sub_nodes = members[i]
        frag_text[i] = render_frag(rng, ext.subgraph(sub_nodes).copy(), sub_nodes, desc, anno_p=anno_p)
    cut_description.last_shared_kinds = shared_kinds
    cut_description.last_pyrrole_cut = any(d.get('pyrrole_ring') and part[a] != part[b] for a, b, d in g.edges(data=True))
    return base, frag_text, part, nshared


def reference_graph(g):
    """the molecule with explicit hydrogens: what resolution must return (up to isomorphism)"""
    ref = nx.Graph()
    for n, d in g.nodes(data=True):
        ref.add_node(('a', n), element=d['element'], charge=d['charge'])
    for a, b, o in g.edges(data='order'):
        ref.add_edge(('a', a), ('a', b), order=o)
    for n, d in g.nodes(data=True):
        for k in range(d['h']):
            ref.add_node(('h', n, k), element='H', charge=0)
            ref.add_edge(('a', n), ('h', n, k), order=1)
    return ref


def graph_to_json(g):
    return {'n': [[k, d.get('element'), d.get('charge', 0)] for k, d in g.nodes(data=True)],
            'e': [[a, b, o] for a, b, o in g.edges(data='order')]}


def cut_case(rng, nmin=3, nmax=12, share_p=0.0, virtual=0, aromatic_p=0.25, label_p=1.0,
             kinds=('$', '><'), anno_p=0.0, pyrrole_p=0.0, biaryl_p=0.0, kekule_p=0.0, thio_p=0.0, charged_p=0.1, hetero_p=0.0,
             arom_sym_p=0.0):
    """one C01-style case: a molecule, the uncut description and a cut description"""
    while True:
        g = rnd_mol(rng, rng.randint(nmin, nmax), aromatic_p=aromatic_p, pyrrole_p=pyrrole_p, biaryl_p=biaryl_p, thio_p=thio_p,
                    charged_p=charged_p, hetero_p=hetero_p)
        kekule = False
        if kekule_p and rng.random() < kekule_p and not biaryl_p and not share_p:
            ring = [n for n, d in g.nodes(data=True) if d['aromatic'] and any('kek' in g.edges[n, m] for m in g[n])]
            # a six-ring written with alternating single and double bonds; no lower-case atom anywhere
            if len(ring) == 6 and all(g.nodes[n]['element'] in ('C', 'N') for n in ring) and \
                    not any(d.get('lower') or d.get('pyrrole') for _, d in g.nodes(data=True)):
                for n in ring:
                    g.nodes[n]['kekule'] = True
                kekule = True
        nf = rng.randint(1, min(5, len(g)))
        base, frag_text, part, nshared = cut_description(rng, g, nf, kinds=kinds, share_p=share_p, label_p=label_p, anno_p=anno_p,
                                                        arom_sym_p=arom_sym_p)
        if base.number_of_edges() and max(o for *_, o in base.edges(data='order')) > 4:
            continue
        if kekule and any(part[a] != part[b] for a, b, d in g.edges(data=True) if 'kek' in d):
            continue          # the ring itself is not cut when it is written in Kekule form
        break
    names = {i: 'F%d' % i for i in range(nf)}
    base_str, appearance = render_base(rng, base, names, virtual=virtual)
    frags = ','.join('#F%d=%s' % (i, frag_text[i]) for i in rng.sample(range(nf), nf))
    whole = '{[#M]}.{#M=' + render_frag(rng, g, list(g), {}) + '}'
    return {'kind': 'cut', 'shared_kinds': sorted(set(cut_description.last_shared_kinds)),
            'pyrrole_ring_cut': cut_description.last_pyrrole_cut, 'has_pyrrole': any(d.get('pyrrole') for _, d in g.nodes(data=True)),
            's': base_str + '.{' + frags + '}', 'whole': whole, 'kekule': kekule,
            'nfrag': nf, 'nshared': nshared, 'natoms': len(g), 'virtual': virtual,
            'mol': {'n': [[k, d['element'], d['charge'], d['h'], d['aromatic']] for k, d in g.nodes(data=True)],
                    'e': [[a, b, o] for a, b, o in g.edges(data='order')]},
            'appearance': appearance, 'part': sorted(part.items())}


def ref_from_case(case):
    g = nx.Graph()
    for k, el, ch, h, ar in case['mol']['n']:
        g.add_node(k, element=el, charge=ch, h=h, aromatic=ar)
    for a, b, o in case['mol']['e']:
        g.add_edge(a, b, order=o)
    return reference_graph(g)


# ---------------------------------------------------------------------------------------------
#  ambiguous descriptions (C03): small fragment alphabets with unlabelled / surplus descriptors
# ---------------------------------------------------------------------------------------------
SKELETONS_AA = ['C', 'CC', 'CCC', 'C(C)C', 'CO', 'COC', 'CN', 'c1ccccc1', 'C1CC1', 'CC(=O)O', 'C=C', 'N']


def rnd_descriptor(rng, labels=('', '', 'A', 'B'), kinds='$$$><!', orders=(1, 1, 1, 2, 0, 3)):
    k = rng.choice(kinds)
    lab = rng.choice(labels)
    o = rng.choice(orders)
    return SYM[o] + '[' + k + lab + ']'


def ambiguous_fragment(rng, all_atom):
    if all_atom:
        sk = rng.choice(SKELETONS_AA)
        # insert descriptors after atoms (upper/lower-case letters that are atoms)
        out = ''
        for i, c in enumerate(sk):
            out += c
            if c in 'CNOcno' and rng.random() < 0.5:
                for _ in range(rng.choice([1, 1, 2])):
                    d = rnd_descriptor(rng, orders=(1, 1, 1, 1, 2))
                    # a descriptor right after a ring digit is legal; avoid splitting 'Cl' etc.
                    out += d
        return out
    n = rng.randint(1, 3)
    out = ''
    for j in range(n):
        out += rng.choice(['', '', '=', '.']) if j else ''
        out += '[#%s]' % rng.choice(['X', 'Y', 'Z'])
        for _ in range(rng.choice([0, 1, 1, 2])):
            out += rnd_descriptor(rng)
    return out


def rnd_base_string(rng, names, nmax=6, orders=(1, 1, 1, 1, 2, 0, 3)):
    """random base graph string: chain with branches, rings and bond orders over `names`"""
    n = rng.randint(1, nmax)
    ring_open = []
    nxt = [1]

    def chain(k, depth):
        s = ''
        for i in range(k):
            if s or depth:
                s += SYM[rng.choice(orders)] if (s or depth) else ''
            s += '[#%s]' % rng.choice(names)
            if rng.random() < 0.15 and nxt[0] < 9:
                ring_open.append(nxt[0])
                s += str(nxt[0])
                nxt[0] += 1
            elif ring_open and rng.random() < 0.3:
                s += str(ring_open.pop(0))
            if depth < 2 and rng.random() < 0.25:
                s += SYM[rng.choice(orders)] + '(' + chain(rng.randint(1, 2), depth + 1)[len(SYM[0]) * 0:] + ')'
        return s
    body = chain(n, 0)
    # close whatever is still open on a fresh node (may duplicate an edge -> syntax error, fine)
    for r in ring_open:
        body += '[#%s]%d' % (rng.choice(names), r)
    return '{' + body + '}'


def ambiguous_case(rng):
    all_atom = rng.random() < 0.5
    nf = rng.randint(1, 3)
    names = ['A', 'B', 'C'][:nf]
    frags = ','.join('#%s=%s' % (nm, ambiguous_fragment(rng, all_atom)) for nm in names)
    base = rnd_base_string(rng, names + (['V'] if rng.random() < 0.1 else []))
    return {'kind': 'ambiguous', 's': base + '.{' + frags + '}', 'all_atom': all_atom,
            'legacy': rng.random() < 0.6}


def polymer_case(rng, big=False):
    """homopolymers / copolymers / rings of identical units / grafts with unlabelled descriptors: surplus
    descriptors are filled with hydrogen"""
    units = {'PEO': '[$]COC[$]', 'PE': '[$]CC[$]', 'PS': '[$]CC[$]c1ccccc1', 'PMA': '[>]CC[<]C(=O)OC',
             'PP': '[>]CC(C)[<]', 'OH': '[$]O', 'ME': '[$]C', 'NH': '[$]N[$]', 'AM': '[<]C(=O)N[>]',
             'BR': '[$]C([$])[$]', 'PH': '[$]c1ccc([$])cc1', 'PV': '[>]C=C[<]', 'VI': '[$]=CC=[$]'}
    names = rng.sample(sorted(units), rng.randint(1, 3))
    shape = 'mult' if big else rng.choice(['chain', 'mult', 'ring', 'graft'])
    if shape == 'chain':
        body = ''.join('[#%s]' % rng.choice(names) for _ in range(rng.randint(1, 6)))
    elif shape == 'mult':
        body = '[#%s]|%d' % (names[0], rng.randint(6, 14) if big else rng.randint(2, 5)) + ''.join('[#%s]' % n for n in names[1:])
    elif shape == 'ring':
        k = rng.randint(3, 6)
        body = '[#%s]1' % names[0] + ''.join('[#%s]' % rng.choice(names) for _ in range(k - 2)) + '[#%s]1' % names[0]
    else:
        body = '[#%s]([#%s][#%s])[#%s]([#%s])[#%s]' % tuple(rng.choice(names) for _ in range(6))
    frags = ','.join('#%s=%s' % (n, units[n]) for n in names)
    return {'kind': 'polymer', 's': '{' + body + '}.{' + frags + '}', 'all_atom': True, 'legacy': rng.random() < 0.7}


def star_share_case(rng):
    """one atom shared by three or four fragments: a centre with k arms, every centre-arm bond replaced
    by sharing the centre"""
    k = rng.randint(3, 4)
    g = nx.Graph()
    center_el = 'C' if k == 4 or rng.random() < 0.6 else rng.choice(['N', 'P'])
    if center_el != 'C':
        k = 3
    g.add_node(0, element=center_el, charge=0, aromatic=False, h=VAL[center_el] - k)
    part = {0: 0}
    for arm in range(k):
        prev = 0
        for j in range(rng.randint(1, 3)):
            i = len(g)
            el = rng.choice(['C', 'C', 'O', 'N']) if j else 'C'
            g.add_node(i, element=el, charge=0, aromatic=False, h=0)
            g.add_edge(prev, i, order=1)
            part[i] = arm + 1 if arm + 1 < k or rng.random() < 0.5 else arm + 1
            prev = i
    for i in g:
        if i:
            g.nodes[i]['h'] = VAL[g.nodes[i]['element']] - sum(o for *_, o in g.edges(i, data='order'))
    nf = k + 1
    # centre alone in fragment 0; arms 1..k; every cut bond is centre-arm and is shared
    desc = collections.defaultdict(list)
    ext = g.copy()
    members = collections.defaultdict(list)
    for n, f in part.items():
        members[f].append(n)
    base = nx.Graph()
    base.add_nodes_from(range(nf))
    lab = 0
    for a, b, o in list(g.edges(data='order')):
        if part[a] == part[b]:
            continue
        if rng.random() < 0.5:
            a, b = b, a               # which end is copied into the other fragment when the bond is replaced by sharing
        lab += 1
        c, arm_atom = (a, b) if a == 0 else (b, a)
        cp = len(ext)
        ext.add_node(cp, **g.nodes[c])
        ext.nodes[cp]['h'] = 0
        ext.add_edge(arm_atom, cp, order=o)
        members[part[arm_atom]].append(cp)
        L = 'S%d' % lab if rng.random() < 0.8 else ''
        desc[cp].append(('!' + L, 1))
        desc[c].append(('!' + L, 1))
        base.add_edge(part[c], part[arm_atom], order=1)
    frag_text = {i: render_frag(rng, ext.subgraph(members[i]).copy(), members[i], desc) for i in range(nf)}
    names = {i: 'F%d' % i for i in range(nf)}
    if rng.random() < 0.5:
        base_str, appearance = render_base(rng, base, names)
    else:
        # the centre listed after j of its arms: those arms reach it through ring bonds
        arms = list(range(1, nf))
        rng.shuffle(arms)
        j = rng.randint(1, len(arms))
        body = ''
        for r, a in enumerate(arms[:j - 1], 1):
            body += '[#F%d]%d.' % (a, r)
        body += '[#F%d][#F0]' % arms[j - 1] + ''.join(str(r) for r in range(1, j))
        rest = arms[j:]
        for i, a in enumerate(rest):
            body += '([#F%d])' % a if i < len(rest) - 1 else '[#F%d]' % a
        base_str = '{' + body + '}'
    frags = ','.join('#F%d=%s' % (i, frag_text[i]) for i in rng.sample(range(nf), nf))
    whole = '{[#M]}.{#M=' + render_frag(rng, g, list(g), {}) + '}'
    return {'kind': 'cut', 'shared_kinds': ['aliphatic'], 's': base_str + '.{' + frags + '}', 'whole': whole, 'nfrag': nf, 'nshared': k,
            'natoms': len(g), 'virtual': 0, 'star': True,
            'mol': {'n': [[n, d['element'], d['charge'], d['h'], d['aromatic']] for n, d in g.nodes(data=True)],
                    'e': [[a, b, o] for a, b, o in g.edges(data='order')]}}


def clique_share_case(rng):
    """one atom shared by three mutually connected fragments (every fragment holds a copy carrying two
    '!' descriptors, the base graph is a triangle, so the third merge is redundant), followed by
    further fragments attached by ordinary sharing later in the base graph"""
    g = nx.Graph()
    g.add_node(0, element='C', charge=0, aromatic=False, h=1)
    part = {}
    arms = []
    for arm in range(3):
        prev = 0
        atoms = []
        for j in range(rng.randint(1, 3)):
            i = len(g)
            g.add_node(i, element=rng.choice(['C', 'C', 'O', 'N', 'S']) if j else 'C', charge=0, aromatic=False, h=0)
            g.add_edge(prev, i, order=1)
            part[i] = arm
            atoms.append(i)
            prev = i
        arms.append(atoms)
    ntail = rng.randint(1, 2)
    tails = []
    for t in range(ntail):
        arm = rng.randrange(3)
        a = arms[arm][-1]
        if g.nodes[a]['element'] not in ('C', 'N', 'S') or any(x[0] == a for x in tails):
            continue
        i = len(g)
        g.add_node(i, element='C', charge=0, aromatic=False, h=0)
        g.add_edge(a, i, order=1)
        part[i] = 3 + len(tails)
        tails.append((a, i, arm))
    val = dict(VAL)
    for i in g:
        if i:
            g.nodes[i]['h'] = max(0, val[g.nodes[i]['element']] - sum(o for *_, o in g.edges(i, data='order')))
    nf = 3 + len(tails)
    ext = g.copy()
    ext.remove_node(0)
    members = collections.defaultdict(list)
    for n, f in part.items():
        members[f].append(n)
    desc = collections.defaultdict(list)
    copies = []
    for arm in range(3):
        cp = max(ext.nodes) + 1
        ext.add_node(cp, **g.nodes[0])
        ext.nodes[cp]['h'] = 0
        ext.add_edge(arms[arm][0], cp, order=1)
        members[arm].append(cp)
        copies.append(cp)
    labelled = rng.random() < 0.5
    for i, j in ((0, 1), (1, 2), (0, 2)):
        L = 'K%d%d' % (i, j) if labelled else ''
        desc[copies[i]].append(('!' + L, 1))
        desc[copies[j]].append(('!' + L, 1))
    base = nx.Graph()
    base.add_nodes_from(range(nf))
    for i, j in ((0, 1), (1, 2), (0, 2)):
        base.add_edge(i, j, order=1)
    for k, (a, i, arm) in enumerate(tails):
        # the tail fragment gets a copy of the arm atom a, shared with it
        cp = max(ext.nodes) + 1
        ext.add_node(cp, **g.nodes[a])
        ext.nodes[cp]['h'] = 0
        ext.add_edge(i, cp, order=1)
        members[3 + k].append(cp)
        ext.remove_edge(a, i)
        L = 'T%d' % k
        desc[cp].append(('!' + L, 1))
        desc[a].append(('!' + L, 1))
        base.add_edge(arm, 3 + k, order=1)
    for k in desc:
        rng.shuffle(desc[k])
    frag_text = {i: render_frag(rng, ext.subgraph(members[i]).copy(), members[i], desc) for i in range(nf)}
    names = {i: 'F%d' % i for i in range(nf)}
    # the triangle first (so that its redundant edge precedes the tails' edges), in a random rotation
    order = [0, 1, 2]
    rng.shuffle(order)
    body = '[#F%d]1[#F%d][#F%d]1' % tuple(order)
    for k, (a, i, arm) in enumerate(tails):
        if arm == order[2]:
            body += '[#F%d]' % (3 + k) if k == len(tails) - 1 else '([#F%d])' % (3 + k)
    # tails on other arms: written as branches right after their arm would change the edge order; use ring bonds instead
    rid = 2
    extra = ''
    for k, (a, i, arm) in enumerate(tails):
        if arm != order[2]:
            body = body.replace('[#F%d]' % arm, '[#F%d]%d' % (arm, rid), 1)
            extra += '.[#F%d]%d' % (3 + k, rid)
            rid += 1
    base_str = '{' + body + extra + '}'
    frags = ','.join('#F%d=%s' % (i, frag_text[i]) for i in rng.sample(range(nf), nf))
    whole = '{[#M]}.{#M=' + render_frag(rng, g, list(g), {}) + '}'
    return {'kind': 'cut', 'shared_kinds': ['aliphatic'], 's': base_str + '.{' + frags + '}', 'whole': whole, 'nfrag': nf,
            'nshared': 2 + len(tails), 'natoms': len(g), 'virtual': 0, 'clique': True,
            'mol': {'n': [[n, d['element'], d['charge'], d['h'], d['aromatic']] for n, d in g.nodes(data=True)],
                    'e': [[a, b, o] for a, b, o in g.edges(data='order')]}}
