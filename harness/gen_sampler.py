"""
`sampler` suite (DESIGN §5): fragment sets x reactivity tables x terminal sets x target weights x
seeds.  The random decisions of the real run are recorded by wrapping `cgsmiles.sample.random` in
this process and replayed into the Lean model.
"""
import random as _random
from fractions import Fraction

import networkx as nx

import impl
import lib
from impl import cgsmiles  # noqa: F401
import cgsmiles.sample as smod
from cgsmiles.read_fragments import read_fragments


class RecRandom:
    """stands in for the `random` module inside cgsmiles.sample: same stream, decisions logged"""

    def __init__(self):
        self.log = []
        self.contract = []

    def seed(self, a=None):
        _random.seed(a)

    def choice(self, seq):
        x = _random.choice(seq)
        idx = next(i for i, y in enumerate(seq) if y == x)
        self.log.append(idx)
        return x

    def choices(self, population, weights=None, **kw):
        out = _random.choices(population, weights=weights, **kw)
        idx = next(i for i, y in enumerate(population) if y == out[0])
        self.log.append(idx)
        if weights is not None and not weights[idx] > 0:
            self.contract.append(('G0', f'choices returned index {idx} of weight {weights[idx]}'))
        return out

    def __getattr__(self, name):
        return getattr(_random, name)


def gen_case(rng, all_atom=None):
    aa = rng.random() < 0.4 if all_atom is None else all_atom
    nf = rng.randint(1, 4)
    labels = ['', '', 'a', 'b', '1', 'A2']          # BigSMILES-style numeric labels: '$1' is label 1, order 1
    frags, descs = [], []
    for i in range(nf):
        n = rng.randint(1, 3)
        s = ''
        ndesc = 0
        for j in range(n):
            s += 'C' if aa else '[#X%d]' % j
            k = rng.choice([0, 1, 1, 2]) if j in (0, n - 1) else rng.choice([0, 0, 1])
            for _ in range(k):
                if ndesc >= 4:
                    break
                kind = rng.choice('$$><')
                lab = rng.choice(labels)
                o = rng.choice([1, 1, 1, 2])
                if aa and o == 2:
                    o = 1
                s += ('=' if o == 2 else '') + '[' + kind + lab + ']'
                descs.append(kind + lab + str(o))
                ndesc += 1
        frags.append('#F%d=%s' % (i, s))
    fs = '{' + ','.join(frags) + '}'
    descs = sorted(set(descs))
    pr = {(d[:-1] if rng.random() < 0.5 and d[-1] == '1' else d): rng.choice([0, 0.2, 0.5, 1]) for d in descs}
    if rng.random() < 0.3 and pr:
        pr.pop(rng.choice(sorted(pr)))
    if rng.random() < 0.05:
        pr = {}
    fr = {}
    for d in descs:
        if rng.random() < 0.4:
            fr[d if rng.random() < 0.7 else d.rstrip('1') or d] = {e: rng.choice([0, 0.3, 1]) for e in descs if rng.random() < 0.9}
    ter = [d for d in descs if rng.random() < 0.15]
    case = {'kind': 'sampler', 's': fs, 'all_atom': aa, 'poly': pr, 'fragr': fr, 'terminals': ter,
            'seed': rng.choice([0, rng.randint(0, 10 ** 6), rng.randint(0, 10 ** 6), rng.randint(1, 5)]),
            'target': rng.choice([1, 3, 5, 12, 50, 120]) + (0.5 if aa else 0),
            'start': rng.choice([None, None, 'F0'])}
    if not aa or rng.random() < 0.3:
        # (all-atom samplers may be given masses too instead of guessing them from the elements)
        case['masses'] = {'F%d' % i: rng.choice([1, 2, 10]) for i in range(nf)}
    return case


def frac(x):
    f = Fraction(x)
    return [f.numerator, f.denominator]


def run_impl(case):
    """construct + sample once on the real code; returns a record with everything observed"""
    rec = {'decisions': None}
    rr = RecRandom()
    old = smod.random
    smod.random = rr
    kw = dict(polymer_reactivities=dict(case['poly']), fragment_reactivities={k: dict(v) for k, v in case['fragr'].items()},
              terminal_bonds=list(case['terminals']), all_atom=case['all_atom'], seed=case['seed'])
    if 'masses' in case:
        kw['fragment_masses'] = dict(case['masses'])
    try:
        with impl.AromRecorder() as arom, lib.quiet():
            try:
                with lib.time_limit(30):
                    sampler = smod.MoleculeSampler.from_fragment_string(case['s'], **kw)
                    rec['sampler'] = sampler
                    rec['arom_init'] = len(arom.calls)
                    mol = sampler.sample(case['target'], start_fragment=case.get('start'))
                rec['result'] = 'ok'
                rec['mol'] = mol
            except lib.CallTimeout:
                rec['result'] = 'timeout'
                rec['message'] = 'sample() did not return within 30 s'
            except Exception as err:   # noqa: BLE001
                rec['result'] = lib.err_class(err)
                rec['message'] = str(err)[:160]
        rec['arom_calls'] = arom.calls[rec.get('arom_init', 0):]
    finally:
        smod.random = old
    rec['decisions'] = list(rr.log)
    rec['contract'] = list(rr.contract)
    return rec


def model_request(case, rec):
    sampler = rec['sampler']
    frags = impl.frags_request(sampler.fragment_dict)
    rng = list(rec['decisions'])
    start_dec = None
    if not case.get('start'):
        if not rng:
            raise lib.Unsupported('no start decision recorded')
        start_dec = rng.pop(0)
    arom = None
    if rec.get('arom_calls'):
        arom = rec['arom_calls'][-1].get('post')
        if arom is not None and 'unsupported' in arom:
            raise lib.Unsupported(arom['unsupported'])
    return {'op': 'sample', 'frags': frags,
            'poly': [[k, bool(v > 0)] for k, v in case['poly'].items()],
            'fragr': [[k, [[k2, bool(v2 > 0)] for k2, v2 in v.items()]] for k, v in case['fragr'].items()],
            'terminals': list(case['terminals']),
            'masses': [[k, frac(v)] for k, v in sampler.fragment_masses.items()],
            'all_atom': case['all_atom'], 'target': frac(case['target']),
            'start_name': case.get('start'), 'start_decision': start_dec, 'rng': rng, 'arom': arom}


def run_sampler_case(ctx, suite, case, oracle=None, compare=True):
    rec = run_impl(case)
    fp = (rec['result'], len(rec['decisions']), case['all_atom'], len(case['terminals']) > 0, len(case['fragr']) > 0)
    if rec['result'] == 'ok':
        fp = fp + (rec['mol'].number_of_nodes(), rec['mol'].number_of_edges())
    ctx.count(suite, lib.stable_hash(fp), nontrivial=rec['result'] == 'ok' and len(rec['decisions']) > 1,
              sample={k: case[k] for k in ('s', 'poly', 'terminals', 'target', 'seed')})
    ctx.feature('sampler:' + rec['result'])
    if rec['result'] == 'timeout':
        # growth that never reaches the target (the quick cases grow a few dozen fragments in milliseconds)
        ctx.fail(case, f'sample(target_weight={case["target"]}) did not return within 30 s: the growth loop does not stop')
        return rec
    for name, detail in rec['contract']:
        ctx.contract(name, case, detail)
    if compare and not ctx.oracle_only and 'sampler' in rec:
        try:
            req = model_request(case, rec)
        except lib.Unsupported:
            ctx.skip_unsupported()
            req = None
        if req is not None:
            rep = ctx.model(req)
            if 'fail' in rep:
                raise RuntimeError('driver protocol failure: ' + rep['fail'])
            if rec['result'] == 'ok':
                if 'ok' not in rep:
                    ctx.disagree(suite, case, f'implementation returned a molecule, model raises {rep.get("err")} in {rep.get("phase")}')
                else:
                    # hypotheses of the C16 run theorem (CGV.C16.cfgWFb_sound), evaluated by the model on the library the
                    # real reader produced: distinct keys / closed bonds / distinct names must always hold; a template
                    # in several pieces is legal input to which the theorem does not apply (counted, not reported)
                    hyp = rep.get('hyp', {})
                    if hyp.get('frags_wf') is False:
                        ctx.disagree(suite, case, 'the fragment library handed to the sampler does not meet the hypothesis of the '
                                                  'C16 run theorem (duplicate keys, a dangling bond or a duplicate name)')
                    ctx.feature('hyp:cfg-wf' if hyp.get('cfg_wf') else 'hyp:cfg-not-connected')
                    d = lib.diff_obj(lib.model_mol_canon(rep['ok']['final']), lib.dump_mol(rec['mol']), 'molecule')
                    if d is None and rep['ok']['unused']:
                        d = f'model stopped growing with {len(rep["ok"]["unused"])} recorded decisions unused'
                    if d:
                        ctx.disagree(suite, case, d)
            else:
                if 'ok' in rep or rep.get('err') != rec['result']:
                    if rec['arom_calls'] and rec['arom_calls'][-1]['raised']:
                        pass    # rejected by the external aromaticity correction
                    else:
                        ctx.disagree(suite, case, f'implementation raises {rec["result"]} ({rec.get("message", "")[:60]}), '
                                                  f'model: {"molecule" if "ok" in rep else rep.get("err")}')
    if oracle and rec['result'] == 'ok':
        oracle(ctx, case, rec['mol'], rec)
        if int(lib.stable_hash([case['s'], case['seed'], 'again'])[:4], 16) % 3 == 0:
            # the same sampler object asked for a second molecule: every guarantee holds for that one as well
            case2 = dict(case, second_sample_on_same_object=True)
            try:
                with lib.quiet(), lib.time_limit(30):
                    mol2 = rec['sampler'].sample(case['target'], start_fragment=case.get('start'))
            except lib.CallTimeout:
                ctx.fail(case2, 'a second sample() on the same sampler did not return within 30 s')
                mol2 = None
            except Exception:   # noqa: BLE001 - another random path may legitimately run out of growth sites
                mol2 = None
            if mol2 is not None:
                ctx.feature('second-sample-same-object')
                oracle(ctx, case2, mol2, rec)
    elif oracle and rec['result'] != 'ok':
        oracle(ctx, case, None, rec)
    return rec


def sampler_suite(ctx, suite, n, all_atom_only=False, oracle=None):
    rng = ctx.rng(suite)
    for _ in range(n):
        if ctx.out_of_time():
            break
        gen = gen_case_wellformed if rng.random() < 0.7 else gen_case
        case = gen(rng, all_atom=True if all_atom_only else None)
        run_sampler_case(ctx, suite, case, oracle=oracle)


def gen_case_wellformed(rng, all_atom=None):
    """fragment sets in which growth can always continue: every descriptor has a complement"""
    aa = rng.random() < 0.4 if all_atom is None else all_atom
    style = rng.choice(['arrow', 'dollar', 'mixed', 'labelled', 'dollar-labelled'])
    nf = rng.randint(1, 3)
    frags = []
    descs = set()

    def atom(j):
        # (side rings end in a ring carbon: a descriptor written behind them sits on that carbon)
        return rng.choice(['C', 'C', 'O', 'N', 'c1ccccc1' if j else 'C', 'C', 'c1[nH]ccc1' if j else 'C',
                           'c1nc[nH]c1' if j else 'O']) if aa else '[#X%d]' % j
    for i in range(nf):
        n = rng.randint(1, 3)
        body = [atom(j) for j in range(n)]
        if aa:
            body = ['C' if b.startswith('c1') and j == 0 else b for j, b in enumerate(body)]
            # at most one ring per fragment (ring digit 1 is reused by every ring text)
            seen_ring = False
            for j, b in enumerate(body):
                if b.startswith('c1'):
                    if seen_ring:
                        body[j] = 'C'
                    seen_ring = True
        order = rng.choice([1, 1, 1, 2, 0]) if not aa else rng.choice([1, 1, 1, 1, 0])
        sym = {2: '=', 0: '.'}.get(order, '')
        # ('dollar-labelled': '$' descriptors with labels from a small pool — different samplers of one process share
        # some labels and differ in others)
        lab = {'arrow': '', 'dollar': '', 'mixed': '', 'labelled': rng.choice(['a', 'b', '1', 'x2']),
               'dollar-labelled': rng.choice(['A', 'B', 'C'])}[style]
        if style in ('arrow', 'labelled') or (style == 'mixed' and i % 2 == 0):
            d1, d2 = '>' + lab, '<' + lab
        else:
            d1 = d2 = '$' + lab
        body[0] = body[0] + sym + '[' + d1 + ']'
        body[-1] = body[-1] + sym + '[' + d2 + ']'
        descs.update([d1 + str(order), d2 + str(order)])
        if rng.random() < 0.3:
            extra = rng.choice([d1, d2])
            body[rng.randrange(n)] += sym + '[' + extra + ']'
        frags.append('#F%d=%s' % (i, ''.join(body)))
    ter = []
    if rng.random() < 0.4:
        # a terminal fragment with a single descriptor that complements an existing one
        d = sorted(descs)[0]
        comp = {'>': '<', '<': '>', '$': '$'}[d[0]] + d[1:-1]
        tlab = 'T'
        if d[0] == '$':
            tdesc = '$' + tlab
        else:
            tdesc = comp
        sym = {'2': '=', '0': '.'}.get(d[-1], '')
        frags.append('#END=%s%s[%s]' % ('C' if aa else '[#E]', sym, tdesc))
        descs.add(tdesc + d[-1])
        if rng.random() < 0.7:
            ter = [tdesc + d[-1] if rng.random() < 0.5 or d[-1] != '1' else tdesc]
    if rng.random() < 0.3:
        # one atom offers a growth descriptor and two (adjacent) terminal descriptors
        i = rng.randrange(nf)
        name, text = frags[i].split('=', 1)
        k = text.find(']') + 1 if text.startswith('[#') else 1
        # after the first atom's own first descriptor
        j = text.find(']', k) + 1 if text[k:k + 1] in ('[', '=') else k
        pair = ['$TA', '$TB'] if rng.random() < 0.7 else ['$TA', '$TA']
        text = text[:j] + ''.join('[%s]' % t for t in pair) + text[j:]
        frags[i] = name + '=' + text
        for t in sorted(set(pair)):
            frags.append('#E%s=%s[%s]' % (t[1:], 'C' if aa else '[#E%s]' % t[1:], t))
            descs.add(t + '1')
            ter.append(t + '1' if rng.random() < 0.5 else t)
    descs = sorted(descs)
    pr = {}
    for d in descs:
        key = d[:-1] if (rng.random() < 0.5 and d[-1] == '1') else d
        pr[key] = rng.choice([0.2, 0.5, 1, 1, 0])
    if all(v == 0 for v in pr.values()):
        pr[next(iter(pr))] = 1
    fr = {}
    for d in descs:
        if rng.random() < 0.3:
            fr[d] = {e: rng.choice([0, 0.3, 1, 1]) for e in descs}
    case = {'kind': 'sampler', 's': '{' + ','.join(frags) + '}', 'all_atom': aa, 'poly': pr, 'fragr': fr, 'terminals': ter,
            'seed': rng.choice([0, rng.randint(0, 10 ** 6), rng.randint(0, 10 ** 6), rng.randint(1, 5)]), 'target': rng.choice([1, 3, 5, 12, 40]) + (0.5 if aa else 0),
            'start': rng.choice([None, None, 'F0'])}
    if rng.random() < 0.06:
        case['target'] = rng.choice([0, 0.0, -1])       # nothing is to be added: the start fragment, finished like any molecule
    if aa and rng.random() < 0.15:
        # a mapping weight on an atom of a fragment: it concerns the forward mapping, never the mass
        case['s'] = case['s'].replace('=C', '=[C;w=%s]' % rng.choice(['0.5', '2', '0']), 1) if '=C' in case['s'] else case['s']
    if not aa or rng.random() < 0.3:
        case['masses'] = {('F%d' % i): rng.choice([1, 2, 10]) for i in range(nf)}
        case['masses']['END'] = rng.choice([1, 3])
        case['masses']['ETA'] = 1
        case['masses']['ETB'] = 2
    return case
