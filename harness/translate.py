#!/usr/bin/env python3
"""
translate.py -- regenerate lean/CGV/Gen/*.lean from /repo's *current* source.

Two kinds of output:

* tables   : every literal table / membership string the modelled algorithms consult
             (found in the Python AST by function + variable name or by the comparison
             they occur in) is emitted as a Lean definition;
* functions: five small pure leaf functions are translated statement by statement into
             Lean `do` notation in the `Except PyErr` monad (same control flow, same
             short-circuit evaluation, Python exceptions as `throw`).

The translator understands only the Python subset those functions are written in; if a
function leaves that subset it raises TranslateError, which the check treats exactly like
a broken proof (search for a failing input, otherwise `no-failing-input-found`).

Files are only rewritten when their content changes, so `lake build` is a no-op on an
unchanged tree.
"""
import ast
import re
import hashlib
import os
import sys

REPO = os.environ.get('CGSMILES_REPO', '/repo')
HERE = os.path.dirname(os.path.abspath(__file__))
GEN = os.path.join(os.path.dirname(HERE), 'lean', 'CGV', 'Gen')


class TranslateError(Exception):
    pass


def parse(relpath):
    with open(os.path.join(REPO, relpath)) as fh:
        src = fh.read()
    return ast.parse(src), src


def find_func(tree, name):
    for node in ast.walk(tree):
        if isinstance(node, ast.FunctionDef) and node.name == name:
            return node
    raise TranslateError(f'function {name} not found')


def find_assign(node, varname):
    for sub in ast.walk(node):
        if isinstance(sub, ast.Assign) and len(sub.targets) == 1 and \
           isinstance(sub.targets[0], ast.Name) and sub.targets[0].id == varname:
            return sub.value
    raise TranslateError(f'assignment to {varname} not found')


def lean_char(c):
    if len(c) != 1:
        raise TranslateError(f'not a char: {c!r}')
    if c == "'":
        return "'\\''"
    if c == '\\':
        return "'\\\\'"
    if c == '\n':
        return "'\\n'"
    return f"'{c}'"


def lean_str(s):
    """Python str literal -> Lean `List Char` literal"""
    return '[' + ', '.join(lean_char(c) for c in s) + ']'


def lit(node):
    try:
        return ast.literal_eval(node)
    except Exception as err:
        raise TranslateError(f'not a literal: {ast.dump(node)}') from err


def order2(v):
    """bond orders are emitted in half units (1.5 -> 3)"""
    x = v * 2
    if int(x) != x or x < 0:
        raise TranslateError(f'order {v} is not a non-negative multiple of 0.5')
    return int(x)


# --------------------------------------------------------------------------------------
#  tables
# --------------------------------------------------------------------------------------
def in_constants(func):
    """all `x in <constant>` / `x not in <constant>` right-hand sides of a function, in source order"""
    out = []
    for sub in ast.walk(func):
        if isinstance(sub, ast.Compare):
            for op, comp in zip(sub.ops, sub.comparators):
                if isinstance(op, (ast.In, ast.NotIn)):
                    try:
                        out.append((sub.lineno, sub.col_offset, lit(comp)))
                    except TranslateError:
                        pass
    out.sort(key=lambda t: (t[0], t[1]))
    return [o[2] for o in out]


REFERENCE = os.path.join(os.path.dirname(os.path.abspath(__file__)), 'reference')
CAUGHT = (TranslateError, SyntaxError, OSError, KeyError, ValueError, AttributeError, IndexError, TypeError, StopIteration)


def defined_names(text):
    """the Lean constants a section defines"""
    return ['CGV.Gen.' + n for n in re.findall(r'^(?:def|abbrev)\s+([A-Za-z_][A-Za-z0-9_]*)', text, flags=re.M)]


def section(name, fn, fallbacks):
    """one independently translated piece of the generated files.  When the current source has left the shape the
    translator reads, the piece falls back to the hand-kept reference text (harness/reference/<name>.lean: the model of
    that piece written out); the tie of that piece to the code is then the correspondence check (function-level
    differential run + the suites of every property whose theorems depend on it), not the translation."""
    try:
        return fn()
    except CAUGHT as err:
        path = os.path.join(REFERENCE, name + '.lean')
        with open(path) as fh:
            ref = fh.read()
        if fallbacks is not None:
            fallbacks[name] = {'error': f'{type(err).__name__}: {err}', 'defines': defined_names(ref)}
        return (f'-- FALLBACK for section `{name}`: the translator cannot read the current source ({type(err).__name__}); this is the\n'
                f'-- hand-kept reference model of the piece, tied to the code by the correspondence check\n' + ref)


def _tables_read_cgsmiles():
    L = []
    emit = L.append
    # ---- read_cgsmiles.py
    tree, _ = parse('cgsmiles/read_cgsmiles.py')
    rd = find_func(tree, 'read_cgsmiles')
    sto = lit(find_assign(rd, 'symbol_to_order'))
    emit('/-- read_cgsmiles.py `symbol_to_order` (values are plain integers there) -/')
    emit('def symbolToOrder : List (Char × Nat) := [' +
         ', '.join(f'({lean_char(k)}, {int(v)})' for k, v in sto.items()) + ']')
    for v in sto.values():
        if int(v) != v:
            raise TranslateError('symbol_to_order has a non-integer order')
    dbo = lit(find_assign(rd, 'default_bond_order'))
    emit(f'def defaultBondOrder : Nat := {int(dbo)}')
    consts = in_constants(rd)
    strs = [c for c in consts if isinstance(c, str)]
    if len(strs) != 1:
        raise TranslateError(f'expected one membership string in read_cgsmiles, got {strs}')
    emit('/-- the string tested at `pattern[stop+rdx-1] in ...` (substring test on one character) -/')
    emit(f'def bondAfterNodeChars : Str := {lean_str(strs[0])}')
    # the character lists handed to _find_next_character, identified by the variable they define
    def chars_of(arg):
        if isinstance(arg, ast.Name) and arg.id == 'next_characters':
            return chars_of(find_assign(rd, 'next_characters'))
        if isinstance(arg, ast.BinOp) and isinstance(arg.op, ast.Add):
            return chars_of(arg.left) + chars_of(arg.right)
        if ast.unparse(arg) == 'list(symbol_to_order.keys())':
            return list(sto.keys())
        return lit(arg)

    def fnc_call(node):
        return isinstance(node, ast.Call) and isinstance(node.func, ast.Name) and node.func.id == '_find_next_character'
    found = {}
    for sub in ast.walk(rd):
        if isinstance(sub, ast.Assign) and len(sub.targets) == 1 and isinstance(sub.targets[0], ast.Name):
            tgt, val = sub.targets[0].id, sub.value
            if fnc_call(val):
                found.setdefault(tgt, []).append([chars_of(val.args[1])])
            elif isinstance(val, ast.Compare) and fnc_call(val.left) and len(val.comparators) == 1 and \
                    fnc_call(val.comparators[0]) and isinstance(val.ops[0], ast.Gt):
                found.setdefault(tgt, []).append([chars_of(val.left.args[1]), chars_of(val.comparators[0].args[1])])
    want = {'eon': 1, 'branch_stop': 2, 'eon_a': 1, 'eon_b': 1}
    for tgt, arity in want.items():
        occ = found.get(tgt)
        if not occ or any(o != occ[0] for o in occ) or len(occ[0]) != arity:
            raise TranslateError(f'_find_next_character use for `{tgt}` not recognised: {occ}')
    if set(found) - set(want):
        raise TranslateError(f'unexpected _find_next_character uses: {sorted(set(found) - set(want))}')
    emit('/-- character lists handed to `_find_next_character` (by the variable they define) -/')
    for name, val in (('eonChars', found['eon'][0][0]), ('branchStopOpen', found['branch_stop'][0][0]),
                      ('branchStopClose', found['branch_stop'][0][1]), ('eonAChars', found['eon_a'][0][0]),
                      ('eonBChars', found['eon_b'][0][0])):
        emit(f'def {name} : List Char := [' + ', '.join(lean_char(c) for c in val) + ']')
    pats = lit(find_assign(tree, 'PATTERNS'))
    emit('/-- the node regular expression; the model implements exactly this pattern -/')
    emit(f'def placeHolderPattern : Str := {lean_str(pats["place_holder"])}')
    emit('')
    return '\n'.join(L)


def _tables_read_fragments():
    L = []
    emit = L.append
    # ---- read_fragments.py
    tree, _ = parse('cgsmiles/read_fragments.py')
    st = find_func(tree, 'strip_bonding_descriptors')
    bto = lit(find_assign(st, 'bond_to_order'))
    emit('/-- read_fragments.py `bond_to_order`, orders in HALF units (1.5 ↦ 3) -/')
    emit('def bondToOrder2 : List (Char × Nat) := [' +
         ', '.join(f'({lean_char(k)}, {order2(v)})' for k, v in bto.items()) + ']')
    consts = in_constants(st)
    lists = [c for c in consts if isinstance(c, list)]
    strs = [c for c in consts if isinstance(c, str)]
    if len(lists) != 2 or len(strs) != 2:
        raise TranslateError(f'strip_bonding_descriptors membership constants changed: {lists} {strs}')
    emit('def descriptorKinds : List Char := [' + ', '.join(lean_char(c) for c in lists[0]) + ']')
    emit('def twoLetterElements : List Str := [' + ', '.join(lean_str(c) for c in lists[1]) + ']')
    emit(f'def passThroughChars : Str := {lean_str(strs[0])}')
    emit(f'def ezChars : Str := {lean_str(strs[1])}')
    emit('')
    return '\n'.join(L)


def _tables_write_cgsmiles():
    L = []
    emit = L.append
    # ---- write_cgsmiles.py
    tree, _ = parse('cgsmiles/write_cgsmiles.py')
    ots = lit(find_assign(tree, 'order_to_symbol'))
    emit('/-- write_cgsmiles.py `order_to_symbol`, keys in HALF units -/')
    emit('def orderToSymbol2 : List (Nat × Char) := [' +
         ', '.join(f'({order2(k)}, {lean_char(v)})' for k, v in ots.items()) + ']')
    emit('def orderToSymbolS : List (Nat × Str) := orderToSymbol2.map (fun p => (p.1, [p.2]))')
    emit('')
    return '\n'.join(L)


def _tables_rdkit():
    L = []
    emit = L.append
    # ---- rdkit.py
    tree, _ = parse('cgsmiles/rdkit.py')
    btm = find_assign(tree, 'BOND_TYPE_MAP')
    if not isinstance(btm, ast.Dict):
        raise TranslateError('BOND_TYPE_MAP is not a dict literal')
    pairs = []
    for k, v in zip(btm.keys, btm.values):
        name = ast.unparse(v)
        if not name.startswith('Chem.BondType.'):
            raise TranslateError(f'unexpected BOND_TYPE_MAP value {name}')
        pairs.append((order2(lit(k)), name.split('.')[-1]))
    emit('/-- rdkit.py `BOND_TYPE_MAP`: half-unit order ↦ RDKit bond type name -/')
    emit('def bondTypeMap2 : List (Nat × String) := [' +
         ', '.join(f'({k}, "{v}")' for k, v in pairs) + ']')
    emit('')
    return '\n'.join(L)


def _tables_dialects():
    L = []
    emit = L.append
    # ---- dialects.py
    tree, _ = parse('cgsmiles/dialects.py')

    def dialect(varname, parser_name):
        call = find_assign(tree, varname)
        if not (isinstance(call, ast.Call) and ast.unparse(call.func) == 'create_dialect'):
            raise TranslateError(f'{varname} is not a create_dialect call')
        d = call.args[0]
        if not isinstance(d, ast.Dict):
            raise TranslateError(f'{varname}: first argument is not a dict literal')
        params = []
        for k, v in zip(d.keys, d.values):
            default, typ = v.elts
            dv = lit(default)
            tname = ast.unparse(typ)
            if tname not in ('str', 'float'):
                raise TranslateError(f'unsupported annotation type {tname}')
            if dv is None:
                dl = 'none'
            elif tname == 'float':
                from fractions import Fraction
                fr = Fraction(dv).limit_denominator(10**9)
                if float(fr) != float(dv):
                    raise TranslateError('default is not a short rational')
                dl = f'some (.num {fr.numerator} {fr.denominator})'
            else:
                dl = f'some (.str {lean_str(dv)})'
            params.append(f'⟨{lean_str(lit(k))}, {dl}, {".float" if tname == "float" else ".str"}⟩')
        accept = True
        for kw in call.keywords:
            if kw.arg == 'accept_kwargs':
                accept = lit(kw.value)
        if len(call.args) > 1:
            raise TranslateError('create_dialect called with optional_attributes')
        part = find_assign(tree, parser_name)
        if not (isinstance(part, ast.Call) and ast.unparse(part.func) == 'partial'
                and ast.unparse(part.args[0]) == '_parse_dialect_string'):
            raise TranslateError(f'{parser_name} is not partial(_parse_dialect_string, ...)')
        kws = {kw.arg: kw.value for kw in part.keywords}
        if ast.unparse(kws['dialect_signature']) != varname:
            raise TranslateError(f'{parser_name} does not use {varname}')
        ren = lit(kws['arg_to_fullname'])
        return params, accept, ren

    emit('inductive AnnoType where | str | float deriving DecidableEq, Repr')
    emit('inductive AnnoDefault where | str (s : Str) | num (n : Int) (d : Nat) deriving DecidableEq, Repr')
    emit('structure AnnoParam where')
    emit('  name : Str')
    emit('  default : Option AnnoDefault')
    emit('  type : AnnoType')
    emit('deriving DecidableEq, Repr')
    emit('structure DialectSig where')
    emit('  params : List AnnoParam')
    emit('  acceptKwargs : Bool')
    emit('  renames : List (Str × Str)')
    emit('deriving Repr')
    for lname, var, parser in (('baseDialect', 'CGSMILES_DEFAULT_DIALECT', 'parse_graph_base_node'),
                               ('fragDialect', 'fragment_base', '_fragment_node_parser')):
        params, accept, ren = dialect(var, parser)
        emit(f'/-- dialects.py `{var}` as used by `{parser}` -/')
        emit(f'def {lname} : DialectSig := ⟨[' + ', '.join(params) + '], ' +
             ('true' if accept else 'false') + ', [' +
             ', '.join(f'({lean_str(k)}, {lean_str(v)})' for k, v in ren.items()) + ']⟩')
    # defaults of _parse_dialect_string itself
    pds = find_func(tree, '_parse_dialect_string')
    defaults = dict(zip([a.arg for a in pds.args.args][-len(pds.args.defaults):], [lit(d) for d in pds.args.defaults]))
    emit(f'def annotationSep : Char := {lean_char(defaults["annotation_sep_token"])}')
    emit(f'def annotationAssign : Char := {lean_char(defaults["annotation_assign_token"])}')
    emit(f'def dropNone : Bool := {"true" if defaults["drop_none"] else "false"}')
    emit('')
    return '\n'.join(L)


TABLE_SECTIONS = [('tables-read_cgsmiles', _tables_read_cgsmiles), ('tables-read_fragments', _tables_read_fragments),
                  ('tables-write_cgsmiles', _tables_write_cgsmiles), ('tables-rdkit', _tables_rdkit),
                  ('tables-dialects', _tables_dialects)]


def gen_tables(fallbacks=None):
    L = ['/- GENERATED by harness/translate.py from the current /repo sources -- do not edit -/',
         'import CGV.Py', 'namespace CGV.Gen', '']
    for name, fn in TABLE_SECTIONS:
        L.append(section(name, fn, fallbacks))
    L.append('end CGV.Gen')
    return '\n'.join(L) + '\n'


# --------------------------------------------------------------------------------------
#  function translation (Python subset -> Lean do-notation in `Py`)
# --------------------------------------------------------------------------------------
STR, BOOL, NAT, LSTR, NONE = 'Str', 'Bool', 'Nat', 'List Str', 'None'


class Fn:
    """translates one FunctionDef"""

    def __init__(self, func, lean_name, params, ret, tables=None, special=None):
        self.f = func
        self.lean_name = lean_name
        self.params = params          # list of (pyname, leanname, type)
        self.ret = ret
        self.tables = tables or {}    # python global name -> (lean name, key type, value type, key scale)
        self.special = special or {}
        self.env = {p[0]: (p[1], p[2]) for p in params}
        self.counter = 0

    # -- expressions: returns (lean_text, type, impure?)
    def expr(self, e):
        if isinstance(e, ast.Constant):
            v = e.value
            if isinstance(v, bool):
                return ('true' if v else 'false', BOOL, False)
            if isinstance(v, str):
                return (lean_str(v), STR, False)
            if isinstance(v, int):
                return (str(v), NAT, False)
            if v is None:
                return ('none', NONE, False)
            raise TranslateError(f'constant {v!r}')
        if isinstance(e, ast.Name):
            if e.id in self.env:
                n, t = self.env[e.id]
                return (n, t, False)
            raise TranslateError(f'unknown name {e.id}')
        if isinstance(e, ast.List):
            parts = [self.expr(x) for x in e.elts]
            if not parts:
                return ('[]', LSTR, False)
            if any(p[1] != STR for p in parts):
                raise TranslateError('only lists of strings')
            return ('[' + ', '.join(self.lift(p) for p in parts) + ']', LSTR, any(p[2] for p in parts))
        if isinstance(e, ast.Tuple):
            parts = [self.expr(x) for x in e.elts]
            return ('(' + ', '.join(self.lift(p) for p in parts) + ')',
                    '(' + ' × '.join(p[1] for p in parts) + ')', any(p[2] for p in parts))
        if isinstance(e, ast.Subscript):
            sl = e.slice
            if isinstance(e.value, ast.Name) and e.value.id in self.tables:
                lname, _, vt, scale = self.tables[e.value.id]
                idx = self.expr(sl)
                it = self.lift(idx)
                if scale != 1:
                    it = f'({scale} * {it})'
                return (f'pyGet {lname} {it}', vt, True)
            base = self.expr(e.value)
            if base[1] == STR:
                if isinstance(sl, ast.Constant) and sl.value == 0:
                    return (f'pyHead {self.lift(base)}', STR, True)
                if isinstance(sl, ast.UnaryOp) and isinstance(sl.op, ast.USub) and lit(sl) == -1:
                    return (f'pyLast {self.lift(base)}', STR, True)
                if isinstance(sl, ast.Slice) and sl.step is None:
                    lo, hi = sl.lower, sl.upper
                    if hi is None and lo is not None:
                        lo_t = self.expr(lo)
                        if lo_t[1] != NAT:
                            raise TranslateError('slice lower bound must be a natural')
                        return (f'(List.drop {self.lift(lo_t)} {self.lift(base)})', STR, base[2] or lo_t[2])
                    if lo is None and hi is not None and lit(hi) == -1:
                        return (f'(pyInit {self.lift(base)})', STR, base[2])
            raise TranslateError(f'subscript {ast.unparse(e)}')
        if isinstance(e, ast.Compare):
            terms = [e.left] + e.comparators
            outs = []
            for a, op, b in zip(terms, e.ops, terms[1:]):
                ta, tb = self.expr(a), self.expr(b)
                la, lb = self.lift(ta), self.lift(tb)
                if isinstance(op, ast.Eq):
                    outs.append(f'({la} == {lb})')
                elif isinstance(op, ast.NotEq):
                    outs.append(f'({la} != {lb})')
                elif isinstance(op, (ast.In, ast.NotIn)):
                    if isinstance(b, ast.Name) and b.id in self.tables:
                        t = f'(pyHasKey {self.tables[b.id][0]} {la})'
                    elif tb[1] == STR:
                        t = f'(pyStrIn {la} {lb})'
                    elif tb[1] == LSTR:
                        t = f'(List.elem {la} {lb})'
                    else:
                        raise TranslateError(f'membership in {tb[1]}')
                    outs.append(t if isinstance(op, ast.In) else f'(!{t})')
                else:
                    raise TranslateError(f'compare op {op}')
            txt = '(' + ' && '.join(outs) + ')' if len(outs) > 1 else outs[0]
            if '(← ' in txt:
                return (f'(do pure {txt})', BOOL, True)
            return (txt, BOOL, False)
        if isinstance(e, ast.BoolOp):
            vals = [self.truthy(v) for v in e.values]
            is_and = isinstance(e.op, ast.And)
            # short-circuit: fold from the right; an effectful right operand is only evaluated when reached
            acc = vals[-1]
            for v in reversed(vals[:-1]):
                if acc[2]:
                    if is_and:
                        acc = (f'(do if {self.lift(v)} then {acc[0]} else pure false)', BOOL, True)
                    else:
                        acc = (f'(do if {self.lift(v)} then pure true else {acc[0]})', BOOL, True)
                else:
                    op = '&&' if is_and else '||'
                    if v[2]:
                        acc = (f'(do pure ({self.lift(v)} {op} {acc[0]}))', BOOL, True)
                    else:
                        acc = (f'({v[0]} {op} {acc[0]})', BOOL, False)
            return acc
        if isinstance(e, ast.UnaryOp) and isinstance(e.op, ast.Not):
            v = self.truthy(e.operand)
            if v[2]:
                return (f'(do pure (!{self.lift(v)}))', BOOL, True)
            return (f'(!{v[0]})', BOOL, False)
        if isinstance(e, ast.BinOp) and isinstance(e.op, ast.Add):
            a, b = self.expr(e.left), self.expr(e.right)
            if a[1] == STR and b[1] == STR:
                return (f'({self.lift(a)} ++ {self.lift(b)})', STR, False)
            if a[1] == NAT and b[1] == NAT:
                return (f'({self.lift(a)} + {self.lift(b)})', NAT, False)
            raise TranslateError(f'+ on {a[1]} and {b[1]}')
        if isinstance(e, ast.Call):
            fn = e.func
            if isinstance(fn, ast.Name):
                if fn.id == 'int' and len(e.args) == 1:
                    a = self.expr(e.args[0])
                    return (f'pyIntLit {self.lift(a)}', NAT, True)
                if fn.id == 'str' and len(e.args) == 1:
                    a = self.expr(e.args[0])
                    if a[1] != STR:
                        raise TranslateError('str() of a non-string')
                    return a
                if fn.id == 'len' and len(e.args) == 1:
                    a = self.expr(e.args[0])
                    return (f'(List.length {self.lift(a)})', NAT, False)
            if isinstance(fn, ast.Attribute) and fn.attr == 'isdigit' and not e.args:
                a = self.expr(fn.value)
                return (f'(pyIsDigit {self.lift(a)})', BOOL, False)
            raise TranslateError(f'call {ast.unparse(e)}')
        raise TranslateError(f'expression {ast.unparse(e)}')

    def truthy(self, e):
        """expression in boolean context -> (text, BOOL, effectful)"""
        t = self.expr(e)
        if t[1] == BOOL:
            return t
        if t[1] in (LSTR, STR):
            if t[2]:
                return (f'(do pure (!(List.isEmpty {self.lift(t)})))', BOOL, True)
            return (f'(!(List.isEmpty {t[0]}))', BOOL, False)
        raise TranslateError(f'truthiness of {t[1]}')

    def lift(self, t):
        """text usable as a pure term inside a do block (`(← m)` for effectful ones)"""
        return f'(← {t[0]})' if t[2] else t[0]

    # -- statements
    def assign(self, name, t, ind, out):
        txt, typ = self.lift(t), t[1]
        if getattr(self, 'dry', False):
            self.assigned.append((name, typ))
        if name in self.env and self.env[name][1] == typ:
            out.append(f'{ind}{self.env[name][0]} := {txt}')
        else:
            ln = name
            if name in self.env:           # the Python variable changes type: fresh Lean variable
                self.counter += 1
                ln = f'{name}_{self.counter}'
            self.env[name] = (ln, typ)
            out.append(f'{ind}let mut {ln} : {typ} := {txt}')

    def block(self, stmts, ind, out):
        for s in stmts:
            self.stmt(s, ind, out)

    def stmt(self, s, ind, out):
        if isinstance(s, ast.Expr) and isinstance(s.value, ast.Constant) and isinstance(s.value.value, str):
            return   # docstring
        if isinstance(s, ast.Assign) and len(s.targets) == 1:
            tgt = s.targets[0]
            if isinstance(tgt, ast.Name):
                if tgt.id == 'msg':
                    return     # error-message text: never compared, not translated
                self.assign(tgt.id, self.expr(s.value), ind, out)
                return
            if isinstance(tgt, ast.Tuple) and isinstance(s.value, ast.Tuple) and \
               all(isinstance(x, ast.Name) for x in tgt.elts):
                vals = [self.expr(v) for v in s.value.elts]      # evaluated before any assignment
                tmp = []
                for v in vals:
                    tmp.append(self.lift(v))
                for x, v, txt in zip(tgt.elts, vals, tmp):
                    self.assign(x.id, (txt, v[1], False), ind, out)
                return
            if isinstance(tgt, ast.Subscript) and isinstance(tgt.value, ast.Name):
                d = self.env[tgt.value.id]
                k, v = self.expr(tgt.slice), self.expr(s.value)
                out.append(f'{ind}{d[0]} := pySet {d[0]} {self.lift(k)} {self.lift(v)}')
                return
        if isinstance(s, ast.AugAssign) and isinstance(s.op, ast.Add) and isinstance(s.target, ast.Name):
            n, typ = self.env[s.target.id]
            v = self.expr(s.value)
            op = '++' if typ in (STR, LSTR) else '+'
            out.append(f'{ind}{n} := {n} {op} {self.lift(v)}')
            return
        if isinstance(s, ast.If):
            # discover variables that are (re)bound with a new type inside the branches: Lean needs them
            # declared before the `if` (Python scoping is per function)
            probe = Fn(self.f, self.lean_name, self.params, self.ret, self.tables, self.special)
            probe.env = dict(self.env)
            probe.counter = self.counter
            probe.dry = True
            probe.assigned = []
            sink = []
            probe.block(s.body, ind + '  ', sink)
            probe.env = dict(self.env)
            probe.block(s.orelse, ind + '  ', sink)
            defaults = {STR: '[]', NAT: '0', BOOL: 'false', LSTR: '[]'}
            for name, typ in probe.assigned:
                if name in self.env and self.env[name][1] == typ:
                    continue
                self.counter += 1
                ln = f'{name}_{self.counter}' if name in self.env else name
                if typ not in defaults:
                    raise TranslateError(f'cannot pre-declare {name} : {typ}')
                out.append(f'{ind}let mut {ln} : {typ} := {defaults[typ]}')
                self.env[name] = (ln, typ)
            c = self.truthy(s.test)
            out.append(f'{ind}if {self.lift(c)} then')
            saved = dict(self.env)
            self.block(s.body, ind + '  ', out)
            self.env = dict(saved)
            if s.orelse:
                out.append(f'{ind}else')
                self.block(s.orelse, ind + '  ', out)
            self.env = saved
            return
        if isinstance(s, ast.For):
            it = s.iter
            if isinstance(it, ast.Call) and isinstance(it.func, ast.Name) and it.func.id == 'enumerate':
                seq = self.expr(it.args[0])
                i, x = s.target.elts
                el = {STR: STR, LSTR: STR}[seq[1]]
                self.env[i.id] = (i.id, NAT)
                self.env[x.id] = (x.id, el)
                elem = f'(pyChr {x.id}_c)' if seq[1] == STR else None
                if seq[1] == STR:
                    out.append(f'{ind}for ({x.id}_c, {i.id}) in List.zipIdx {self.lift(seq)} do')
                    out.append(f'{ind}  let {x.id} : Str := [{x.id}_c]')
                else:
                    out.append(f'{ind}for ({x.id}, {i.id}) in List.zipIdx {self.lift(seq)} do')
            else:
                seq = self.expr(it)
                if seq[1] == LSTR and isinstance(s.target, ast.Name):
                    self.env[s.target.id] = (s.target.id, STR)
                    out.append(f'{ind}for {s.target.id}_it in {self.lift(seq)} do')
                    # Python loop variables may be re-bound in the body
                    out.append(f'{ind}  let mut {s.target.id} : Str := {s.target.id}_it')
                elif seq[1].startswith('List (Str × ') and isinstance(s.target, ast.Tuple):
                    a, b = s.target.elts
                    vt = seq[1][len('List (Str × '):-1]
                    self.env[a.id] = (a.id, STR)
                    self.env[b.id] = (b.id, vt)
                    out.append(f'{ind}for ({a.id}_it, {b.id}) in {self.lift(seq)} do')
                    out.append(f'{ind}  let mut {a.id} : Str := {a.id}_it')
                else:
                    raise TranslateError(f'for over {seq[1]}')
            if s.orelse:
                raise TranslateError('for-else')
            self.block(s.body, ind + '  ', out)
            return
        if isinstance(s, ast.Return):
            v = self.expr(s.value)
            out.append(f'{ind}return {self.lift(v)}')
            return
        if isinstance(s, ast.Raise):
            exc = s.exc
            name = exc.func.id if isinstance(exc, ast.Call) else exc.id
            err = {'IOError': 'io', 'OSError': 'io', 'SyntaxError': 'syntax', 'TypeError': 'type',
                   'ValueError': 'value', 'KeyError': 'key', 'IndexError': 'index',
                   'LookupError': 'lookup'}.get(name)
            if err is None:
                raise TranslateError(f'raise {name}')
            out.append(f'{ind}throw PyErr.{err}')
            return
        if isinstance(s, ast.Expr) and isinstance(s.value, ast.Call) and \
           isinstance(s.value.func, ast.Attribute) and s.value.func.attr == 'append' and \
           isinstance(s.value.func.value, ast.Name):
            n, typ = self.env[s.value.func.value.id]
            v = self.expr(s.value.args[0])
            out.append(f'{ind}{n} := {n} ++ [{self.lift(v)}]')
            return
        raise TranslateError(f'statement {ast.unparse(s)}')

    def translate(self, body=None, doc=''):
        self.post_if_new = set()
        out = []
        sig = ' '.join(f'({p[1]} : {p[2]})' for p in self.params)
        out.append(f'/-- {doc} -/')
        out.append(f'def {self.lean_name} {sig} : Py ({self.ret}) := do')
        self.block(body if body is not None else self.f.body, '  ', out)
        return '\n'.join(out) + '\n'


def split_isinstance(func, param, typename):
    """`if isinstance(param, typename): A else: B` at top level -> (A, B)"""
    body = [s for s in func.body if not (isinstance(s, ast.Expr) and isinstance(s.value, ast.Constant))]
    if len(body) == 1 and isinstance(body[0], ast.If) and \
       ast.unparse(body[0].test) == f'isinstance({param}, {typename})':
        return body[0].body, body[0].orelse
    raise TranslateError('isinstance split not found')


def _fn_compatible():
    tree, _ = parse('cgsmiles/resolve.py')
    f = find_func(tree, 'compatible')
    if [a.arg for a in f.args.args] != ['left', 'right', 'legacy']:
        raise TranslateError('compatible: signature changed')
    return Fn(f, 'compatible', [('left', 'left', STR), ('right', 'right', STR), ('legacy', 'legacy', BOOL)],
              BOOL).translate(doc='resolve.py `compatible`')


def _fn_format_bonding():
    tree, _ = parse('cgsmiles/write_cgsmiles.py')
    f = find_func(tree, 'format_bonding')
    return Fn(f, 'formatBonding', [('bonding', 'bonding', LSTR)], STR,
              tables={'order_to_symbol': ('orderToSymbolS', NAT, STR, 2)}
              ).translate(doc='write_cgsmiles.py `format_bonding`')


def _fn_find_complementary():
    tree, _ = parse('cgsmiles/cgsmiles_utils.py')
    f = find_func(tree, 'find_complementary_bonding_descriptor')
    if [a.arg for a in f.args.args] != ['bonding_descriptor', 'ellegible_descriptors']:
        raise TranslateError('find_complementary_bonding_descriptor: signature changed')
    return Fn(f, 'findComplementary',
              [('bonding_descriptor', 'bonding_descriptor', STR),
               ('ellegible_descriptors', 'ellegible_descriptors', LSTR)], LSTR
              ).translate(doc='cgsmiles_utils.py `find_complementary_bonding_descriptor` (called with a list)')


def _fn_set_bond_order_defaults():
    tree, _ = parse('cgsmiles/sample.py')
    f = find_func(tree, '_set_bond_order_defaults')
    a, b = split_isinstance(f, 'bonding', 'dict')
    # dict branch: `for bond_operator, prob in bonding.items()` -- rewrite `.items()` away
    class Items(ast.NodeTransformer):
        def visit_Call(self, node):
            self.generic_visit(node)
            if isinstance(node.func, ast.Attribute) and node.func.attr == 'items' and not node.args:
                return node.func.value
            return node
    a = [Items().visit(s) for s in a]
    fn = Fn(f, 'setBondOrderDefaultsDict', [('bonding', 'bonding', 'List (Str × Prob)')], 'List (Str × Prob)')
    # `default_dict = {}` has no expression form in the subset: pre-bind it
    a = [s for s in a if not (isinstance(s, ast.Assign) and ast.unparse(s) == 'default_dict = {}')]
    fn.env['default_dict'] = ('default_dict', 'List (Str × Prob)')
    txt = fn.translate(body=a, doc='sample.py `_set_bond_order_defaults`, dict branch (keys: descriptors)')
    txt = txt.replace(':= do\n', ':= do\n  let mut default_dict : List (Str × Prob) := []\n', 1)
    return '\n'.join(['variable {Prob : Type}\n', txt,
                      Fn(f, 'setBondOrderDefaultsList', [('bonding', 'bonding', LSTR)], LSTR
                         ).translate(body=b, doc='sample.py `_set_bond_order_defaults`, list branch')])


def _fn_find_next_character():
    tree, _ = parse('cgsmiles/read_cgsmiles.py')
    f = find_func(tree, '_find_next_character')
    return Fn(f, 'findNextCharacter', [('string', 'string', STR), ('chars', 'chars', LSTR), ('start', 'start', NAT)],
              NAT).translate(doc='read_cgsmiles.py `_find_next_character` (chars: list of one-character strings)')


FUNC_SECTIONS = [('fn-compatible', _fn_compatible), ('fn-format_bonding', _fn_format_bonding),
                 ('fn-find_complementary', _fn_find_complementary), ('fn-set_bond_order_defaults', _fn_set_bond_order_defaults),
                 ('fn-find_next_character', _fn_find_next_character)]


def gen_functions(fallbacks=None):
    parts = ['/- GENERATED by harness/translate.py from the current /repo sources -- do not edit -/',
             'import CGV.Py', 'import CGV.Gen.Tables', 'namespace CGV.Gen', 'open CGV', '']
    for name, fn in FUNC_SECTIONS:
        parts.append(section(name, fn, fallbacks))
    parts.append('end CGV.Gen\n')
    return '\n'.join(parts)


def gen_valence():
    """pysmiles is external: its valence function and mass table are *evaluated* here, on every run,
    for all elements x charges the models can meet, and emitted as data."""
    import pysmiles
    from pysmiles.smiles_helper import valence
    L = ['/- GENERATED by harness/translate.py by evaluating the installed pysmiles -- do not edit -/',
         'import CGV.Py', 'namespace CGV.Gen', '',
         '/-- pysmiles.smiles_helper.valence for (element, charge); `none` = raises ValueError -/',
         'def valenceTable : List ((Str × Int) × Option (List Nat)) := [']
    rows = []
    symbols = [k for k, v in pysmiles.PTE.items() if isinstance(k, str) and v.get('AtomicNumber', 999) <= 56
               and k == v.get('Symbol', k) and k.isalpha() and len(k) <= 2]
    symbols = sorted(set(symbols), key=lambda s: pysmiles.PTE[s]['AtomicNumber'])
    for el in symbols:
        for ch in range(-4, 5):
            try:
                v = valence({'element': el, 'charge': ch})
                val = 'some [' + ', '.join(str(int(x)) for x in v) + ']'
            except ValueError:
                val = 'none'
            except Exception:
                val = 'none'
            rows.append(f'  (({lean_str(el)}, {ch}), {val})')
    L.append(',\n'.join(rows))
    L.append(']')
    L.append('')
    L.append('/-- pysmiles.PTE[element][\'AtomicMass\'] as text (exact decimal of the Python float) -/')
    L.append('def atomicMass : List (Str × String) := [')
    L.append(',\n'.join(f'  ({lean_str(el)}, "{pysmiles.PTE[el]["AtomicMass"]!r}")' for el in symbols
                        if 'AtomicMass' in pysmiles.PTE[el]))
    L.append(']')
    L.append('end CGV.Gen')
    return '\n'.join(L) + '\n'


def write_if_changed(path, content):
    old = None
    if os.path.exists(path):
        with open(path) as fh:
            old = fh.read()
    if old != content:
        with open(path, 'w') as fh:
            fh.write(content)
        return True
    return False


SOURCES = ['cgsmiles/read_cgsmiles.py', 'cgsmiles/read_fragments.py', 'cgsmiles/write_cgsmiles.py',
           'cgsmiles/rdkit.py', 'cgsmiles/dialects.py', 'cgsmiles/resolve.py', 'cgsmiles/cgsmiles_utils.py',
           'cgsmiles/sample.py', 'cgsmiles/graph_utils.py', 'cgsmiles/pysmiles_utils.py',
           'cgsmiles/coordinates.py', 'cgsmiles/graph_layout.py', 'cgsmiles/graph_layout_utils.py',
           'cgsmiles/linalg_functions.py']


def source_hashes():
    out = {}
    for rel in SOURCES:
        try:
            with open(os.path.join(REPO, rel), 'rb') as fh:
                out[rel] = hashlib.sha256(fh.read()).hexdigest()[:16]
        except OSError:
            out[rel] = None
    return out


def section_defines():
    """section -> the Lean constants it defines (read from the reference text of the section)"""
    out = {}
    for name, _ in TABLE_SECTIONS + FUNC_SECTIONS:
        try:
            with open(os.path.join(REFERENCE, name + '.lean')) as fh:
                out[name] = defined_names(fh.read())
        except OSError:
            out[name] = []
    return out


def main(write_reference=False):
    os.makedirs(GEN, exist_ok=True)
    result = {'changed': [], 'error': None, 'fallbacks': {}}
    if write_reference:
        # (maintenance, on a tree whose translation is trusted) store every section's text as the reference model
        os.makedirs(REFERENCE, exist_ok=True)
        for name, fn in TABLE_SECTIONS + FUNC_SECTIONS:
            with open(os.path.join(REFERENCE, name + '.lean'), 'w') as fh:
                fh.write(fn())
        return result
    try:
        if write_if_changed(os.path.join(GEN, 'Tables.lean'), gen_tables(result['fallbacks'])):
            result['changed'].append('Tables.lean')
        if write_if_changed(os.path.join(GEN, 'Funcs.lean'), gen_functions(result['fallbacks'])):
            result['changed'].append('Funcs.lean')
        if write_if_changed(os.path.join(GEN, 'Valence.lean'), gen_valence()):
            result['changed'].append('Valence.lean')
    except CAUGHT as err:
        result['error'] = f'{type(err).__name__}: {err}'
    return result


if __name__ == '__main__':
    res = main(write_reference='--write-reference' in sys.argv)
    print(res)
    sys.exit(1 if res['error'] else 0)
