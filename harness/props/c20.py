"""
C20 — malformed input is rejected, never silently resolved.
"""
import copy
import re

import gen_graph
import gen_mol
import impl
import lib
import suites

PROP = 'C20'
LEAN_TARGETS = ['CGV.Props.C20', 'CGV.Props.C20Ring']
RULE = ('valid graph strings (C04 generator) and valid cut descriptions (C01 generator) with exactly one fault injected '
        'at every applicable position: a ring marker opened and never closed (in a branch, nested, last node, %nn), a '
        'ring bond duplicating an existing edge / the same ring bond twice, a node renamed to a name without fragment, '
        'an annotation entry with two "=", a surplus positional value, a non-numeric charge/weight (base-graph nodes, '
        'bracket atoms of atomistic fragments, nodes of coarse fragments); implementation and Lean model must raise the same error class; '
        'oracle: the documented exception type; non-trivial: every injected fault; distinct by (fault, position, string)')
ASSUMPTIONS = ['coarse-fragment annotations go through the atomistic dialect (finding S3): a non-numeric q there is accepted']


def inject_dangling(rng, ast):
    a = copy.deepcopy(ast)
    items = list(gen_graph.flat_items(a))
    used = {r[0] for it in items for r in it['rings']}
    it = rng.choice(items)
    # ring index 0 ('0', '%00') is an index like any other
    rid = rng.choice([i for i in [0, 0] + list(range(1, 10)) + [10, 12, 99] if i not in used])
    it['rings'].append([rid, rng.choice([1, 1, 2]), True])
    it['mult'] = 1
    return a


def inject_duplicate(rng, ast):
    """ring bond between a node and its chain/branch predecessor, or an existing ring bond written twice"""
    a = copy.deepcopy(ast)
    g = gen_graph.denote(a)
    items = list(gen_graph.flat_items(a))
    if g.number_of_edges() == 0:
        return None
    u, v = rng.choice(list(g.edges))
    u, v = min(u, v), max(u, v)
    used = {r[0] for it in items for r in it['rings']}
    rid = rng.choice([i for i in range(1, 10) if i not in used] or [77])
    # the marker must not be closed in between by something else: fresh id guarantees that
    items[u]['rings'].append([rid, 1, True])
    items[v]['rings'].append([rid, 1, False])
    items[u]['mult'] = items[v]['mult'] = 1
    return a


def expect(ctx, case, got, want, what, finding=None):
    if got[0] == 'ok':
        ctx.fail(case, f'{what}: a graph was returned for {case["s"]}', finding=finding)
    elif got[1] != want:
        ctx.fail(case, f'{what}: raised {got[1]}, documented is {want} ({case["s"]})', finding=finding)


def graph_faults(ctx):
    rng = ctx.rng('graph-faults')
    for _ in range(ctx.budget(500, 10000)):
        base = gen_graph.graph_case(rng, maxnodes=9, annos=rng.random() < 0.3)
        kind = rng.choice(['dangling', 'duplicate', 'two-eq', 'surplus', 'nonnumeric'])
        ast = base['ast']
        if kind == 'dangling':
            bad = inject_dangling(rng, ast)
            want = 'syntax'
        elif kind == 'duplicate':
            bad = inject_duplicate(rng, ast)
            want = 'syntax'
            if bad is None:
                continue
        else:
            bad = copy.deepcopy(ast)
            it = rng.choice(list(gen_graph.flat_items(bad)))
            if kind == 'two-eq':
                it['anno'] = list(it['anno']) + [rng.choice(['w=ab=c', 'q=1=2', 'k=a=b', '=='])]
                want = 'syntax'
            elif kind == 'surplus':
                it['anno'] = ['1', '0.5', rng.choice(['d', '3', 'x'])] + [e for e in it['anno'] if '=' in e and e[0] not in 'qw']
                want = 'syntax'
            else:
                it['anno'] = [e for e in it['anno'] if '=' in e and e[0] not in 'qw'] + [rng.choice(
                    ['w=abc', 'q=a', 'q=1x', 'w=--1', 'q=', 'w=1e', 'w=1/0', 'q=1/3', 'w=2/0.0', 'q=1,5', 'w=1..2', 'q=0x10'])]
                want = 'type'
        s = '{' + gen_graph.render(bad) + '}'
        case = {'kind': 'graph-fault', 'fault': kind, 's': s}
        got = suites.run_read_case(ctx, 'fault-' + kind, s, case=case)
        expect(ctx, case, got, want, f'{kind} fault')


def resolve_faults(ctx):
    rng = ctx.rng('resolve-faults')
    for _ in range(ctx.budget(200, 4000)):
        c = gen_mol.cut_case(rng, nmax=8)
        kind = rng.choice(['missing-fragment', 'missing-fragment-zero-edge', 'missing-fragment-named-like-virtual',
                           'missing-fragment-ring-bond', 'atom-two-eq', 'atom-nonnumeric', 'atom-surplus',
                           'fault-in-repeated-definition'])
        s = c['s']
        base, frags = s.split('}.', 1)
        if kind == 'missing-fragment':
            names = re.findall(r'\[#(F\d+)\]', base)
            if len(names) < 2:
                continue
            victim = rng.choice(names)
            # the node keeps its bonds (order >= 1), only its name has no definition any more
            bad = base.replace('[#%s]' % victim, '[#NOFRAG]', 1) + '}.' + frags
            want = 'syntax'
        elif kind == 'missing-fragment-named-like-virtual':
            # a legitimate virtual node [#V] (zero-order edges only) comes first; a later node of the SAME name is bonded
            names = re.findall(r'\[#(F\d+)\]', base)
            if len(names) < 2 or re.search(r'\|\d+$', base):
                continue
            victim = rng.choice(names[1:])
            body = base[1:]
            k = body.find(']') + 1
            j = k
            while j < len(body) and (body[j].isdigit() or body[j] in '%' or
                                      (body[j] in '.-=#$' and j + 1 < len(body) and (body[j + 1].isdigit() or body[j + 1] == '%'))):
                j += 1
            if j < len(body) and body[j] == '|':
                continue
            with_virtual = (body[:j] + '.([#V])' + body[j:]) if rng.random() < 0.5 else ('[#V].' + body)
            if with_virtual.count('[#%s]' % victim) < 1:
                continue
            idx = with_virtual.rfind('[#%s]' % victim)
            bad = '{' + with_virtual[:idx] + '[#V]' + with_virtual[idx + len(victim) + 3:] + '}.' + frags
            want = 'syntax'
        elif kind == 'missing-fragment-ring-bond':
            # the fragment-less node hangs on a zero-order chain bond, but closes a ring bond of order >= 1: not virtual
            names = re.findall(r'\[#(F\d+)\]', base)
            if len(names) < 1 or re.search(r'[9%|]', base):
                continue
            other = rng.choice(names)
            sym = rng.choice(['', '', '=', '-'])
            # '[#F..]9' … '.[#NOFRAG]9' : the marker is opened at a real node (with or without a bond symbol)
            bad = base.replace('[#%s]' % other, '[#%s]%s9' % (other, sym), 1) + '.[#NOFRAG]9' + '}.' + frags
            toks = list(re.finditer(r'\[#F\d+\]', base))
            if rng.random() < 0.6 and len(toks) >= 2 and not re.search(r'\d', re.sub(r'\[#F\d+\]', '', base)):
                # or opened by the fragment-less node itself, directly behind its zero bond, and closed by a later real
                # node:  '[#Fi].([#NOFRAG]9) … [#Fj]9'
                i = rng.randrange(len(toks) - 1)
                j = rng.randrange(i + 1, len(toks))
                bad = base[:toks[i].end()] + '.([#NOFRAG]9)' + base[toks[i].end():toks[j].end()] + '9' + base[toks[j].end():] + '}.' + frags
            want = 'syntax'
        elif kind == 'missing-fragment-zero-edge':
            # the fragment-less node has real bonds and, in addition, a zero-order ring bond to an extra unit
            names = re.findall(r'\[#(F\d+)\]', base)
            if len(names) < 2 or re.search(r'[9%|]', base):
                continue
            victim = rng.choice(names)
            other = rng.choice(names)
            bad = base.replace('[#%s]' % victim, '[#NOFRAG].9', 1) + '.[#%s]9' % other + '}.' + frags
            want = 'syntax'
        elif kind == 'fault-in-repeated-definition':
            # a name is defined a second time (the first definition is the one that counts) and the second text carries a
            # faulty annotation: every definition that is written is read, so the fault is reported
            names = re.findall(r'#(F\d+)=', frags)
            if not names:
                continue
            anno, want = rng.choice([('w=abc', 'type'), ('w=1=2', 'syntax'), ('1;R;extra', 'syntax'), ('q=1/0', 'type')])
            if anno.startswith('q='):
                anno = 'w=' + anno[2:]
            bad = base + '}.' + frags[:-1] + ',#%s=C[C;%s]C}' % (rng.choice(names), anno)
        else:
            # turn one plain carbon of a fragment into an annotated bracket atom with a faulty annotation
            pos = [m.start() for m in re.finditer(r'(?<![A-Za-z\[#])C(?![a-z])', frags)]
            pos = [p for p in pos if not re.match(r'[^\[\]]*\]', frags[p:]) or '[' in frags[p:].split(']')[0]]
            if not pos:
                continue
            p = rng.choice(pos)
            anno = {'atom-two-eq': rng.choice(['w=1=2', 'k=a=b']), 'atom-nonnumeric': rng.choice(['w=abc', 'w=1x', 'w=1/0', 'w=1/3']),
                    'atom-surplus': '1;R;extra'}[kind]
            bad = base + '}.' + frags[:p] + '[C;' + anno + ']' + frags[p + 1:]
            want = 'type' if kind == 'atom-nonnumeric' else 'syntax'
        case = {'kind': 'resolve-fault', 'fault': kind, 's': bad, 'all_atom': True}
        steps = suites.run_resolve_case(ctx, 'fault-' + kind, case)
        if steps is None:
            # raised while reading: find the class
            try:
                impl.resolver_from_string(bad)
                got = ('ok', None)
            except Exception as err:   # noqa: BLE001
                got = ('err', lib.err_class(err))
        else:
            last = steps[-1]
            got = ('ok', None) if last['result'] == 'ok' else ('err', last['result'])
        expect(ctx, case, got, want, f'{kind} fault')


def outcome(ctx, case, steps):
    if steps is None:
        try:
            impl.resolver_from_string(case['s'], last_all_atom=case.get('all_atom', True))
            return ('ok', None)
        except Exception as err:   # noqa: BLE001
            return ('err', lib.err_class(err))
    last = steps[-1]
    return ('ok', None) if last['result'] == 'ok' else ('err', last['result'])


def coarse_fragment_faults(ctx):
    """the same annotation faults on the nodes of a coarse fragment"""
    rng = ctx.rng('coarse-faults')
    for _ in range(ctx.budget(60, 1200)):
        kind = rng.choice(['cg-two-eq', 'cg-nonnumeric-w', 'cg-nonnumeric-q', 'cg-surplus', 'cg-dangling', 'cg-dangling'])
        if kind == 'cg-dangling':
            # a ring marker opened on a node of a coarse fragment and never closed: first / last node, digit / %nn,
            # followed by a descriptor or by nothing
            marker = rng.choice(['1', '7', '%12', '%10', '=3', '=%11'])
            where = rng.randrange(3)
            nodes = ['[#X]', '[#Y]', '[#Z]']
            nodes[where] += marker
            tail = rng.choice(['[$]', '', '[$]'])
            n = rng.randint(1, 2)
            s_ = '{' + '[#U]' * n + '}.{#U=[$]' + ''.join(nodes) + tail + '}'
            case = {'kind': 'resolve-fault', 'fault': kind, 's': s_, 'all_atom': False}
            steps = suites.run_resolve_case(ctx, 'fault-' + kind, case)
            expect(ctx, case, outcome(ctx, case, steps), 'syntax', f'{kind} fault')
            continue
        anno = {'cg-two-eq': rng.choice(['w=1=2', 'k=a=b', 'q=1=2']), 'cg-nonnumeric-w': rng.choice(['w=abc', 'w=1x']),
                'cg-nonnumeric-q': rng.choice(['q=a', 'q=1x', 'q=']), 'cg-surplus': '1;0.5;extra'}[kind]
        n = rng.randint(1, 3)
        where = rng.randrange(2)
        nodes = ['[#X]', '[#Y]']
        nodes[where] = '[#%s;%s]' % ('XY'[where], anno)
        s = '{' + '[#U]' * n + '}.{#U=[$]' + ''.join(nodes) + '[$]}'
        want = 'type' if 'nonnumeric' in kind else 'syntax'
        case = {'kind': 'resolve-fault', 'fault': kind, 's': s, 'all_atom': False}
        steps = suites.run_resolve_case(ctx, 'fault-' + kind, case)
        expect(ctx, case, outcome(ctx, case, steps), want, f'{kind} fault', finding='S3' if kind == 'cg-nonnumeric-q' else None)


def run(ctx):
    graph_faults(ctx)
    resolve_faults(ctx)
    coarse_fragment_faults(ctx)


def corpus_case(ctx, payload):
    case = payload['case']
    if case.get('kind') == 'resolve-fault':
        steps = suites.run_resolve_case(ctx, 'corpus', case)
        want = 'type' if 'nonnumeric' in case['fault'] else 'syntax'
        expect(ctx, case, outcome(ctx, case, steps), want, case['fault'] + ' fault',
               finding='S3' if case['fault'] == 'cg-nonnumeric-q' else None)


def replay(payload):
    case = payload['case']
    from cgsmiles.read_cgsmiles import read_cgsmiles
    try:
        if case['kind'] == 'graph-fault':
            read_cgsmiles(case['s'])
        else:
            with lib.quiet():
                impl.resolver_from_string(case['s'], last_all_atom=case.get('all_atom', True)).resolve_all()
        print('no error raised for', case['s'])
        return 1
    except Exception as err:   # noqa: BLE001
        print(type(err).__name__, 'raised for', case['s'], '(fault:', case['fault'] + ')')
        want = 'type' if 'nonnumeric' in case['fault'] else 'syntax'
        return 0 if lib.err_class(err) == want else 1


def finding_still_fails(f):
    import json, os
    path = os.path.join(lib.VERIF, f.get('witness', ''))
    if not os.path.exists(path):
        return None
    with open(path) as fh:
        payload = json.load(fh)
    return replay(payload) == 1
