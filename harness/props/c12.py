"""
C12 — output numbering is canonical and results depend on the input alone.
"""
import copy
import json
import os
import subprocess
import sys

import networkx as nx

import gen_levels
import gen_mol
import impl
import lib
import suites

PROP = 'C12'
LEAN_TARGETS = ['CGV.Props.C12', 'CGV.Props.C12Reach', 'CGV.Props.C12Order']
RULE = ('resolutions of fragmented molecules / polymers / multi-level strings: exact correspondence with the Lean '
        'model (a pure function of the input) for every single call of a call history sharing fragment dictionaries in '
        'one process, and in sub-processes under different PYTHONHASHSEED values; permuted fragment definitions; the '
        'three constructors; fragment dictionaries compared before/after; oracle: keys 0..n-1, contiguous blocks per '
        'coarse node, atom names element+index unique per coarse node; non-trivial = >= 2 coarse nodes')
ASSUMPTIONS = ['process-level determinism (hash seeds, aliasing, mutable defaults) cannot be exhibited by a pure model: '
               'it is validated by requiring every call of every explored history to equal the model\'s value']
TRUSTED_EXTRA = ['interpreter state (dict/set ordering, module-level mutable defaults) is outside the model; covered by '
                 'call-history and hash-seed correspondence only']


def canonical(fine, meta):
    return json.dumps({'fine': lib.dump_mol(fine),
                       'coarse': [[k, sorted(meta.nodes[k]['graph'].nodes) if 'graph' in meta.nodes[k] else None]
                                  for k in meta.nodes]}, sort_keys=True)


def numbering_oracle(ctx, case, steps, ctor_err):
    if steps is None:
        return
    for st in steps:
        if st['result'] != 'ok':
            continue
        fine, meta = st['fine_graph'], st['meta_graph']
        keys = sorted(fine.nodes)
        if keys != list(range(len(keys))):
            ctx.fail(suites.slim(case), f'level {st["level"]}: node keys are not 0..n-1: {keys[:10]}')
            continue
        shared = any(len(d.get('fragid', [])) != 1 for _, d in fine.nodes(data=True))
        # "ordered by coarse-node membership": membership is the KEY of the coarse node the atom stems from — the
        # block of coarse node k consists of atoms that report k's fragment name (a virtual node has no block)
        cnames = {k: d.get('fragname') for k, d in meta.nodes(data=True)}
        for n, d in fine.nodes(data=True):
            for f in d.get('fragid', []):
                if f not in cnames:
                    ctx.fail(suites.slim(case), f'level {st["level"]}: atom {n} is numbered under coarse node {f}, which does not exist')
                    break
                if not shared and d.get('fragname') is not None and d.get('fragname') != cnames[f]:
                    ctx.fail(suites.slim(case), f'level {st["level"]}: atom {n} of fragment {d.get("fragname")!r} is numbered in the '
                                                f'block of coarse node {f} ({cnames[f]!r})')
                    break
        if not shared:
            fids = [fine.nodes[k]['fragid'][0] for k in keys]
            if fids != sorted(fids):
                ctx.fail(suites.slim(case), f'level {st["level"]}: atoms are not ordered by coarse node: {fids[:16]}')
            # contiguous blocks in base-graph key order
            seen = []
            for f in fids:
                if not seen or seen[-1] != f:
                    if f in seen:
                        ctx.fail(suites.slim(case), f'level {st["level"]}: atoms of coarse node {f} are not contiguous')
                    seen.append(f)
        if st['all_atom']:
            for k in meta.nodes:
                g = meta.nodes[k].get('graph')
                if g is None:
                    continue
                names = [fine.nodes[n].get('atomname') for n in g.nodes]
                own = [nm for n, nm in zip(g.nodes, names) if fine.nodes[n].get('fragid', [None])[-1] == k]
                if len(set(own)) != len(own):
                    ctx.fail(suites.slim(case), f'level {st["level"]}: atom names in coarse node {k} are not unique: {own[:10]}')
                if not shared:
                    # running index: along the block (keys ascending) the indices count 0, 1, 2, ...
                    idx = []
                    for n in sorted(g.nodes):
                        nm = fine.nodes[n].get('atomname', '')
                        el = fine.nodes[n].get('element', '')
                        idx.append(int(nm[len(el):]) if nm.startswith(el) and nm[len(el):].isdigit() else None)
                    if idx != list(range(len(idx))):
                        ctx.fail(suites.slim(case), f'level {st["level"]}: atom-name indices along coarse node {k} are {idx[:12]}, not a running index')
                for n in g.nodes:
                    if fine.nodes[n].get('fragid', [None])[-1] != k:
                        continue
                    nm = fine.nodes[n].get('atomname', '')
                    el = fine.nodes[n].get('element', '')
                    if not (nm.startswith(el) and nm[len(el):].isdigit()):
                        ctx.fail(suites.slim(case), f'level {st["level"]}: atom name {nm!r} is not element+index (element {el})')


def history_suite(ctx):
    """sequences of resolver calls that share fragment dictionaries within this process: every call must
    give what the same call gives on a fresh start, and passed-in libraries must not change"""
    from cgsmiles.resolve import MoleculeResolver
    from cgsmiles.read_fragments import read_fragments
    from cgsmiles.read_cgsmiles import read_cgsmiles
    rng = ctx.rng('history')
    for _ in range(ctx.budget(40, 600)):
        r0 = rng.random()
        case = gen_mol.cut_case(rng, nmax=9) if r0 < 0.4 else (gen_mol.polymer_case(rng) if r0 < 0.7 else gen_mol.ambiguous_case(rng))
        if r0 > 0.9:
            # end caps that are a bare hydrogen ('[$]H', rewritten to '[H]' while reading), under a name not used before
            # in this process: the first read and every later read of the same text must give the same graphs
            hname = 'Hcap%d' % rng.randrange(10 ** 6)
            unit = rng.choice(['[$]CC[$]', '[$]COC[$]', '[$]C(C)C[$]'])
            n = rng.randint(1, 3)
            case = {'kind': 'h-capped', 'all_atom': True,
                    's': '{[#%s][#PE]%s[#%s]}.{#%s=[$]H,#PE=%s}' % (hname, '|%d' % n if n > 1 else '', hname, hname, unit)}
            ctx.feature('bare-hydrogen-fragment')
        if not case.get('all_atom', True):
            continue
        if r0 <= 0.9 and rng.random() < 0.3 and '}.{' in case['s']:
            # several molecules in one description (the base graph twice, joined by a zero-order bond): the open chain
            # ends on both sides of the '.' stay open through every constructor
            b, rest = case['s'].split('}.{', 1)
            case = dict(case, s=b + '.' + b[1:] + '}.{' + rest)
            ctx.feature('history:several-molecules')
        s = case['s']
        legacy = case.get('legacy', True)
        base_str, frag_str = s.split('}.', 1)
        base_str += '}'
        try:
            with lib.quiet():
                ref = MoleculeResolver.from_string(s, legacy=legacy).resolve()
            ref_dump = canonical(ref[1], ref[0])
        except Exception:    # noqa: BLE001
            ctx.count('history', nontrivial=False)
            continue
        ctx.count('history', lib.stable_hash([len(ref[1]), ref[1].number_of_edges()]), sample=s)
        try:
            with lib.quiet():
                # 1. library passed in, used by several resolvers one after the other
                lib_dicts = [read_fragments(frag_str, all_atom=True)]
                before = json.dumps([[n, lib.dump_mol(g)] for n, g in lib_dicts[0].items()], sort_keys=True)
                outs = []
                for rep in range(3):
                    r = MoleculeResolver.from_fragment_dicts(base_str, lib_dicts, legacy=legacy)
                    m, f = r.resolve()
                    outs.append(canonical(f, m))
                after = json.dumps([[n, lib.dump_mol(g)] for n, g in lib_dicts[0].items()], sort_keys=True)
                # 2. base graph given as a graph
                g0 = read_cgsmiles(base_str)
                r = MoleculeResolver.from_graph('{' + frag_str.lstrip('{'), g0, legacy=legacy)
                m, f = r.resolve()
                outs.append(canonical(f, m))
                # 3. definitions permuted
                defs = frag_str.strip('{}').split(',')
                if all(d.startswith('#') for d in defs) and len(defs) > 1:
                    rng.shuffle(defs)
                    m, f = MoleculeResolver.from_string(base_str + '.{' + ','.join(defs) + '}', legacy=legacy).resolve()
                    outs.append(canonical(f, m))
                # 3b. the three constructors with their DEFAULT arguments agree with each other
                dflt = []
                m, f = MoleculeResolver.from_string(s).resolve()
                dflt.append(canonical(f, m))
                m, f = MoleculeResolver.from_graph('{' + frag_str.lstrip('{'), read_cgsmiles(base_str)).resolve()
                dflt.append(canonical(f, m))
                m, f = MoleculeResolver.from_fragment_dicts(base_str, [read_fragments(frag_str, all_atom=True)]).resolve()
                dflt.append(canonical(f, m))
                # 4. the whole string again after all of the above
                m, f = MoleculeResolver.from_string(s, legacy=legacy).resolve()
                outs.append(canonical(f, m))
        except Exception as err:    # noqa: BLE001
            ctx.fail(suites.slim(case), f'a later call of the history raised {type(err).__name__}: {str(err)[:80]} although the first call succeeded')
            continue
        if len(set(dflt)) != 1:
            which = ['from_string', 'from_graph', 'from_fragment_dicts']
            odd = [which[i] for i in range(3) if dflt.count(dflt[i]) == 1] or which
            ctx.fail(suites.slim(case), f'called with default arguments, the constructors give different results ({", ".join(odd)} differs)')
        if before != after:
            ctx.fail(suites.slim(case), 'a fragment library passed to from_fragment_dicts was modified by resolving')
        for i, o in enumerate(outs):
            if o != ref_dump:
                which = ['from_fragment_dicts #1', 'from_fragment_dicts #2 (same library)', 'from_fragment_dicts #3 (same library)',
                         'from_graph', 'permuted definitions', 'from_string again'][min(i, 5)] if len(outs) == 6 else f'call {i}'
                ctx.fail(suites.slim(case), f'{which} gives a different result than the first from_string call')
                break


HASH_SCRIPT = r'''
import sys, json
sys.path.insert(0, sys.argv[1]); sys.path.insert(1, sys.argv[2])
import lib, impl
from cgsmiles.resolve import MoleculeResolver
out = []
for line in sys.stdin:
    c = json.loads(line)
    try:
        with lib.quiet():
            m, f = MoleculeResolver.from_string(c['s'], legacy=c.get('legacy', True), last_all_atom=c.get('all_atom', True)).resolve_all()
        out.append(json.dumps({'fine': lib.dump_mol(f), 'coarse': [[k, sorted(m.nodes[k]['graph'].nodes) if 'graph' in m.nodes[k] else None] for k in m.nodes]}, sort_keys=True))
    except Exception as e:
        out.append('ERR ' + lib.err_class(e))
print(json.dumps(out))
'''


def hashseed_suite(ctx):
    rng = ctx.rng('hashseed')
    cases = []
    for _ in range(ctx.budget(60, 600)):
        r = rng.random()
        if r < 0.3:
            c = gen_mol.cut_case(rng, nmax=9)
        elif r < 0.5:
            c = gen_levels.hier_case(rng)
        elif r < 0.8:
            c = gen_mol.ambiguous_case(rng)        # several descriptors per atom: the choice among them must not depend on hashing
        else:
            c = gen_mol.polymer_case(rng)
        cases.append({'s': c['s'], 'legacy': c.get('legacy', True), 'all_atom': c.get('all_atom', True)})
    payload = '\n'.join(json.dumps(c) for c in cases) + '\n'
    results = {}
    seeds = ['0', '1', '4242'] if ctx.tier == 'quick' else ['0', '1', '2', '3', '77', '4242', '99991', 'random']
    for hs in seeds:
        env = dict(os.environ, PYTHONHASHSEED=hs, PBR_VERSION='0')
        p = subprocess.run([sys.executable, '-W', 'ignore', '-c', HASH_SCRIPT, lib.REPO, os.path.join(lib.VERIF, 'harness')],
                           input=payload, capture_output=True, text=True, env=env, timeout=900)
        if p.returncode != 0:
            raise RuntimeError('hash-seed subprocess failed: ' + p.stderr[-400:])
        results[hs] = json.loads(p.stdout.strip().split('\n')[-1])
    first = results[seeds[0]]
    for i, c in enumerate(cases):
        ctx.count('hashseed', lib.stable_hash(first[i]), nontrivial=not first[i].startswith('ERR'), sample=c['s'])
        for hs in seeds[1:]:
            if results[hs][i] != first[i]:
                ctx.fail(c, f'result under PYTHONHASHSEED={hs} differs from PYTHONHASHSEED={seeds[0]}')
                break


def continuation_suite(ctx):
    """a multi-level description resolved in two sittings: the molecule the first block resolves to (a coarse level) is
    handed, as a graph object, to from_graph together with the remaining block — the result is the molecule the whole
    string resolves to"""
    import re
    from cgsmiles.resolve import MoleculeResolver
    rng = ctx.rng('continuation')
    for _ in range(ctx.budget(25, 300)):
        case = gen_levels.hier_case(rng, levels=1)
        continuation_check(ctx, case)


def continuation_check(ctx, case):
    import re
    from cgsmiles.resolve import MoleculeResolver
    if True:
        blocks = re.findall(r"\{[^\}]+\}", case['s'])
        if len(blocks) != 3:
            return
        aa = case.get('all_atom', True)
        try:
            with lib.quiet():
                _, ref = MoleculeResolver.from_string(case['s'], last_all_atom=aa).resolve_all()
                _, middle = MoleculeResolver.from_string('.'.join(blocks[:2]), last_all_atom=False).resolve()
        except Exception:   # noqa: BLE001
            ctx.count('continuation', nontrivial=False)
            return
        ctx.count('continuation', lib.stable_hash(case['s']), sample=case['s'])
        c = {'kind': 'continuation', 's': case['s'], 'all_atom': aa}
        try:
            with lib.quiet():
                _, got = MoleculeResolver.from_graph(blocks[2], middle, last_all_atom=aa).resolve()
        except Exception as err:   # noqa: BLE001
            ctx.fail(c, f'from_graph on the molecule the first block resolves to raised {type(err).__name__}: {str(err)[:70]}')
            return
        nm = (lambda a, b: a.get('element') == b.get('element')) if aa else (lambda a, b: a.get('atomname') == b.get('atomname'))
        if not nx.is_isomorphic(ref, got, node_match=nm, edge_match=lambda a, b: a.get('order') == b.get('order')):
            ctx.fail(c, f'resolving in two sittings (first block, then from_graph with the rest) gives {len(got)} atoms / '
                        f'{got.number_of_edges()} bonds, the whole string {len(ref)} / {ref.number_of_edges()}')


def run(ctx):
    continuation_suite(ctx)
    rng = ctx.rng('resolve')
    for i in range(ctx.budget(300, 6000)):
        if ctx.out_of_time():
            break
        r = i % 3
        case = gen_mol.cut_case(rng) if r == 0 else (gen_mol.polymer_case(rng, big=(i % 12 == 1)) if r == 1 else
                                                     gen_levels.hier_case(rng, share_p=rng.choice([0, 0.4])))
        if i % 6 == 4 and '}.{' in case['s']:
            # several molecules in one description: the base graph written twice, joined by a zero-order bond — the
            # chain ends left open on both sides of the '.' stay open, whichever constructor the input goes through
            base, rest = case['s'].split('}.{', 1)
            case = dict(case, s=base + '.' + base[1:] + '}.{' + rest, ctor=('graph', 'fragment-dicts', 'string')[(i // 6) % 3])
            ctx.feature('several-molecules')
        suites.run_resolve_case(ctx, 'resolve', case, oracle=numbering_oracle)
    history_suite(ctx)
    hashseed_suite(ctx)


def corpus_case(ctx, payload):
    case = payload.get('case', {})
    if isinstance(case, dict) and 's' in case and case.get('kind') != 'compat':
        suites.run_resolve_case(ctx, 'corpus', case, oracle=numbering_oracle)


def replay(payload):
    import check
    ctx = check.Ctx(PROP, 'quick', 0)
    if payload['case'].get('kind') == 'continuation':
        continuation_check(ctx, payload['case'])
    else:
        suites.run_resolve_case(ctx, 'replay', payload['case'], oracle=numbering_oracle, compare=False)
    for c, what, _ in ctx.failures:
        print('FAILS:', what)
    print('input:', payload['case'].get('s'), '(history / hash-seed failures: re-run ./check C12 quick with the recorded seed)')
    return 1 if ctx.failures else 0


def finding_still_fails(f):
    return False
