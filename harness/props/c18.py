"""
C18 — the RDKit bridge keeps chemistry and puts coordinates on the right atoms.
"""
import itertools
from fractions import Fraction

import networkx as nx
import numpy as np

import gen_mol
import impl
from rdkit import RDLogger
RDLogger.DisableLog('rdApp.*')
import lib
import suites

PROP = 'C18'
LEAN_TARGETS = ['CGV.Props.C18']
RULE = ('resolved molecules (single/multi fragment, shared atoms, rings, hydrogens interleaved by renumbering), random '
        'node orderings, weight annotations, rigid translations; RDKit in the loop: the Lean model receives the node '
        'iteration order and RDKit\'s coordinates per atom index and must predict the stored position of every node '
        'exactly and every bead position (exact rational arithmetic vs float at 1e-9); oracle: bonded atoms at bonding '
        'distance, translating atoms translates beads, graph -> RDKit -> graph keeps elements/charges/orders/H counts; '
        'non-trivial = molecule with >= 2 coarse nodes')
ASSUMPTIONS = ['RDKit (AddAtom indices consecutive, AddHs appends, Sanitize/Embed/UFF keep atom order: contract R0) is external',
               'floating point is not modelled: beads are compared at 1e-9 against exact rational arithmetic',
               'RDKit re-perceives aromaticity of five-membered heteroaromatics (finding K4)']
TRUSTED_EXTRA = ['RDKit chemistry, embedding and force field; IEEE floating point']


class AllChemProxy:
    """forwards to rdkit.Chem.AllChem and remembers the molecule that was optimised"""

    def __init__(self, real):
        self._real = real
        self.last = None

    def __getattr__(self, name):
        f = getattr(self._real, name)
        if name in ('EmbedMolecule', 'UFFOptimizeMolecule'):
            def wrapped(mol, *a, **k):
                self.last = mol
                if name == 'EmbedMolecule' and 'randomSeed' not in k:
                    k['randomSeed'] = 7
                return f(mol, *a, **k)
            return wrapped
        return f


def embed_case(ctx, case, cg, aa):
    """embed_3d_via_rdkit + forward_map_molecule on a resolved molecule, with the model in the loop"""
    import cgsmiles.rdkit as crd
    from cgsmiles.coordinates import forward_map_molecule
    slim = suites.slim(case)
    proxy = AllChemProxy(crd.AllChem)
    old = crd.AllChem
    crd.AllChem = proxy
    nodes_before = list(aa.nodes)
    try:
        with lib.quiet():
            crd.embed_3d_via_rdkit(aa)
    except Exception as err:    # noqa: BLE001
        crd.AllChem = old
        ctx.feature('embed-' + lib.err_class(err))
        return
    finally:
        crd.AllChem = old
    rd = proxy.last
    rd_pos = None
    if rd is not None:
        conf = rd.GetConformer()
        rd_pos = [[conf.GetAtomPosition(i).x, conf.GetAtomPosition(i).y, conf.GetAtomPosition(i).z] for i in range(rd.GetNumAtoms())]
    if rd_pos is None or len(rd_pos) != len(aa) or any(not np.all(np.isfinite(p)) for p in rd_pos):
        ctx.contract('R0', slim, 'no RDKit embedding was observed for this call' if rd_pos is None else
                     'RDKit returned a different number of atoms / non-finite coordinates')
        # the exact comparison with the captured conformer is impossible; the property is still looked at: every atom has
        # a position and bonded atoms lie at bonding distance (sum of covalent radii, generous 0.6 Å tolerance)
        rad = {'H': 0.31, 'C': 0.76, 'N': 0.71, 'O': 0.66, 'P': 1.07, 'S': 1.05, 'F': 0.57, 'Cl': 1.02, 'Br': 1.20, 'I': 1.39}
        for n in aa.nodes:
            if 'position' not in aa.nodes[n] or not np.all(np.isfinite(aa.nodes[n]['position'])):
                ctx.fail(slim, f'atom {n} has no finite position after embedding')
                return
        for a, b in aa.edges:
            ea, eb = aa.nodes[a].get('element'), aa.nodes[b].get('element')
            if ea in rad and eb in rad and aa.edges[a, b].get('order', 1) != 0:
                d = float(np.linalg.norm(aa.nodes[a]['position'] - aa.nodes[b]['position']))
                if abs(d - (rad[ea] + rad[eb])) > 0.6:
                    ctx.fail(slim, f'bonded atoms {a}-{b} ({ea}-{eb}) are {d:.2f} Å apart after embedding (covalent radii sum '
                                   f'{rad[ea] + rad[eb]:.2f} Å)')
                    return
        return
    order = list(aa.nodes)
    ctx.feature('embedded')
    # model: positions are routed by iteration index
    if not ctx.oracle_only:
        rep = ctx.model({'op': 'writeback', 'nodes': order, 'pos': [[repr(x) for x in p] for p in rd_pos]})
        want = {k: v for k, v in rep['ok']}
        for n in aa.nodes:
            have = [repr(float(x)) for x in aa.nodes[n]['position']]
            if want.get(n) != have:
                ctx.disagree('embed', slim, f'node {n}: stored position {have}, model routes {want.get(n)}')
                break
    # oracle: every atom carries the coordinates RDKit computed for it.  Atom i of the RDKit molecule is the
    # i-th node in iteration order (that is how networkx_to_rdkit numbers them), so every bond of the graph must
    # have exactly the length RDKit gave it; a misrouted position shows as a bond of a different length.  (Plain
    # plausibility bounds are not used: UFF geometries of odd molecules contain 0.57 Å N-H and 2.7 Å I-I bonds.)
    index = {n: i for i, n in enumerate(order)}
    for a, b in aa.edges:
        d = float(np.linalg.norm(aa.nodes[a]['position'] - aa.nodes[b]['position']))
        d_rd = float(np.linalg.norm(np.array(rd_pos[index[a]]) - np.array(rd_pos[index[b]])))
        bonded = rd.GetBondBetweenAtoms(index[a], index[b]) is not None
        if abs(d - d_rd) > 1e-6 or not bonded:
            ctx.fail(slim, f'bonded atoms {a}-{b} ({aa.nodes[a]["element"]}-{aa.nodes[b]["element"]}) are {d:.2f} Å apart after embedding, '
                           f'RDKit placed that bond at {d_rd:.2f} Å (node iteration order {order[:10]}…)')
            break
    # beads
    with lib.quiet():
        forward_map_molecule(cg, aa)
    beads = {k: cg.nodes[k]['position'].copy() for k in cg.nodes if 'graph' in cg.nodes[k] and len(cg.nodes[k]['graph'])}
    if not ctx.oracle_only:
        req = {'op': 'beads', 'beads': []}
        for k in beads:
            g = cg.nodes[k]['graph']
            members = [[n, list(Fraction(g.nodes[n].get('weight', 1)).as_integer_ratio()),
                        [list(Fraction(float(x)).as_integer_ratio()) for x in aa.nodes[n]['position']]] for n in g.nodes]
            req['beads'].append([k, members])
        rep = ctx.model(req)
        for k, comps in rep['ok']:
            if comps is None:
                continue
            exact = [Fraction(n, d) for n, d in comps]
            for x, y in zip(exact, beads[k]):
                if abs(float(x) - float(y)) > 1e-9 * max(1.0, abs(float(x))):
                    ctx.disagree('beads', slim, f'bead {k}: implementation {list(beads[k])}, exact weighted mean {[float(v) for v in exact]}')
                    break
    # oracle: every bead sits at the weight-normalised average of its own atoms
    for k, pos_k in beads.items():
        gk = cg.nodes[k]['graph']
        ws = {n: gk.nodes[n].get('weight', 1) for n in gk.nodes}
        tot = sum(ws.values())
        if tot > 0:
            exp = sum(aa.nodes[n]['position'] * w for n, w in ws.items()) / tot
            if np.linalg.norm(exp - pos_k) > 1e-9 * max(1.0, float(np.linalg.norm(exp))):
                ctx.fail(slim, f'bead {k} is at {[round(float(x), 4) for x in pos_k]}, the weight-normalised average of its atoms is '
                               f'{[round(float(x), 4) for x in exp]} (weights {ws})')
                break
    # translation
    t = np.array([10.0, -3.0, 2.5])
    for n in aa.nodes:
        aa.nodes[n]['position'] = aa.nodes[n]['position'] + t
    with lib.quiet():
        forward_map_molecule(cg, aa)
    for k, p0 in beads.items():
        shift = cg.nodes[k]['position'] - p0
        if np.linalg.norm(shift - t) > 1e-6:
            ws = dict(cg.nodes[k]['graph'].nodes(data='weight'))
            ctx.fail(slim, f'translating all atoms by {list(t)} moves bead {k} by {[round(float(x), 4) for x in shift]} (weights {ws})')
            break


def roundtrip_case(ctx, case, aa):
    from cgsmiles.rdkit import networkx_to_rdkit, rdkit_to_networkx
    from rdkit import Chem
    from rdkit.Chem import AllChem
    slim = suites.slim(case)
    try:
        with lib.quiet():
            rd = networkx_to_rdkit(aa)
    except Exception as err:   # noqa: BLE001
        ctx.feature('to-rdkit-' + lib.err_class(err))
        return
    for with_conf in (False, True):
        m = Chem.Mol(rd)
        if with_conf:
            if AllChem.EmbedMolecule(m, randomSeed=11) != 0:
                continue
        try:
            with lib.quiet():
                back = rdkit_to_networkx(m)
        except Exception as err:   # noqa: BLE001
            ctx.fail(slim, f'rdkit_to_networkx raised {type(err).__name__} ({err}) for a molecule {"with" if with_conf else "without"} conformer')
            continue
        order = list(aa.nodes)
        for i, n in enumerate(order):
            a, b = aa.nodes[n], back.nodes[i]
            if a.get('element') != b.get('element') or a.get('charge', 0) != b.get('charge', 0):
                ctx.fail(slim, f'atom {n}: {a.get("element")}{a.get("charge", 0):+d} comes back as {b.get("element")}{b.get("charge", 0):+d}')
                return
        # hydrogens described per heavy atom: explicit hydrogen neighbours + hcount
        def described_h(g, n):
            return sum(1 for m in g[n] if g.nodes[m].get('element') == 'H') + (g.nodes[n].get('hcount', 0) or 0)
        for i, n in enumerate(order):
            if aa.nodes[n].get('element') != 'H' and described_h(aa, n) != described_h(back, i):
                ctx.fail(slim, f'atom {n} ({aa.nodes[n].get("element")}): {described_h(aa, n)} hydrogens go in, '
                               f'{described_h(back, i)} are described afterwards (hcount {back.nodes[i].get("hcount")})')
                return
        ea = {frozenset((order.index(u), order.index(v))): d.get('order', 1) for u, v, d in aa.edges(data=True)}
        eb = {frozenset((u, v)): d.get('order') for u, v, d in back.edges(data=True)}
        if ea != eb:
            bad = [(sorted(k), ea.get(k), eb.get(k)) for k in set(ea) | set(eb) if ea.get(k) != eb.get(k)]
            ctx.fail(slim, f'bond orders change in the RDKit round trip: {bad[:3]}', finding=classify_k4(aa, bad))
            return
        if with_conf and 'position' not in back.nodes[0]:
            ctx.fail(slim, 'conformer coordinates are not returned')


def classify_k4(aa, bad):
    """K4: RDKit re-perceives aromaticity (five-membered heteroaromatic rings written with localised bonds)"""
    if all((b == 1.5 and a in (1, 2)) or (a == 1.5 and b in (1, 2)) for _, a, b in bad):
        return 'K4'
    return None


def reorder(aa, order):
    """the same molecule with its nodes inserted in the given order (edges: reversed list, flipped orientation)"""
    aa2 = nx.Graph()
    for nn in order:
        aa2.add_node(nn, **aa.nodes[nn])
    for u, v, d in reversed(list(aa.edges(data=True))):
        aa2.add_edge(v, u, **d)
    return aa2


def run(ctx):
    rng = ctx.rng('mol')
    n = ctx.budget(100, 1200)
    for i in range(n):
        if ctx.out_of_time():
            break
        if i % 4 == 3:
            case = gen_mol.polymer_case(rng)          # equally named beads of different composition (end / middle units)
            case.setdefault('nfrag', 2)
        elif i % 12 == 5:
            # molecules that are single atoms only (ions, one or several, unbonded): RDKit embeds a lone atom at the origin
            ions = rng.sample(['[Na+]', '[Cl-]', '[K+]', '[F-]', '[Br-]'], rng.randint(1, 2))
            case = {'kind': 'ions', 'all_atom': True, 'legacy': True, 'nfrag': len(ions),
                    's': '{' + '.'.join('[#I%d]' % k for k in range(len(ions))) + '}.{' +
                         ','.join('#I%d=%s' % (k, t) for k, t in enumerate(ions)) + '}'}
            ctx.feature('single-atom-molecules')
        elif i % 6 == 1:
            # several charged and neutral atoms of the same element in one molecule, in any order
            case = gen_mol.cut_case(rng, nmin=4, nmax=9, aromatic_p=0.0, charged_p=0.5, hetero_p=0.5)
            ctx.feature('charged-and-neutral-heteroatoms')
        else:
            case = gen_mol.cut_case(rng, nmin=3, nmax=9, aromatic_p=0.2, share_p=rng.choice([0, 0, 0.3]))
        if i % 5 == 2 and '}.{' in case['s']:
            # several molecules in one description (a zero-order bond to a further unit): the parts of the molecule are
            # not contiguous in node order once hydrogens are added
            base, rest = case['s'].split('}.{', 1)
            extra = rng.choice(['O', 'CO', '[Cl-]', 'N'])
            where = rng.choice(['last', 'first'])
            base = (base + '.[#W9]') if where == 'last' else ('{[#W9].' + base[1:])
            case = dict(case, s=base + '}.{' + rest[:-1] + ',#W9=' + extra + '}', nfrag=case.get('nfrag', 2) + 1)
            ctx.feature('several-molecules')
        # weights on some atoms
        try:
            r = impl.resolver_from_string(case['s'], legacy=case.get('legacy', True))
            with lib.quiet():
                cg, aa = r.resolve()
        except Exception:   # noqa: BLE001
            ctx.count('mol', nontrivial=False)
            continue
        if rng.random() < 0.5:
            # any node ordering: the same molecule with its nodes inserted in a random order
            order = list(aa.nodes)
            rng.shuffle(order)
            case = dict(case, node_order=order)
            aa = reorder(aa, order)
            ctx.feature('shuffled-node-order')
        zeroed = set()
        negative = set()
        for nn in aa.nodes:
            if rng.random() < 0.3:
                w = rng.choice([0.5, 2.0, 0.25, 3.0, 0.0, -0.5])
                if w < 0:
                    # a legal negative weight; at most one per bead and only in beads of three or more atoms, so that the
                    # total weight stays positive
                    if any(k in negative or k in zeroed for k in aa.nodes[nn]['fragid']) or \
                            any(len(cg.nodes[k]['graph']) < 3 for k in aa.nodes[nn]['fragid']):
                        continue
                    negative.update(aa.nodes[nn]['fragid'])
                if w == 0.0:
                    # a legal ';0' annotation; at most one atom per bead so that the total weight stays positive
                    if any(k in zeroed for k in aa.nodes[nn]['fragid']) or any(len(cg.nodes[k]['graph']) < 2 for k in aa.nodes[nn]['fragid']):
                        continue
                    zeroed.update(aa.nodes[nn]['fragid'])
                aa.nodes[nn]['weight'] = w
                for k in aa.nodes[nn]['fragid']:
                    if nn in cg.nodes[k]['graph']:
                        cg.nodes[k]['graph'].nodes[nn]['weight'] = w
        ctx.count('mol', lib.stable_hash([case['s']]), nontrivial=case['nfrag'] > 1, sample=case['s'])
        roundtrip_case(ctx, case, aa.copy())
        again = None
        if i % 3 == 0:
            # the same compound embedded a second time in this process, its nodes in another order: every atom still gets
            # ITS coordinates (nothing about an earlier embedding may be replayed in the earlier atom order)
            order2 = list(aa.nodes)
            rng.shuffle(order2)
            again = (reorder(aa, order2), order2)
        embed_case(ctx, case, cg, aa)
        if again is not None:
            ctx.feature('embedded-again-in-another-order')
            embed_case(ctx, dict(case, node_order=again[1], embedded_before=True), cg, again[0])


def corpus_case(ctx, payload):
    case = payload['case']
    try:
        r = impl.resolver_from_string(case['s'], legacy=case.get('legacy', True))
        with lib.quiet():
            cg, aa = r.resolve()
    except Exception:   # noqa: BLE001
        return
    ctx.count('corpus', lib.stable_hash(case['s']), sample=case['s'])
    if case.get('node_order'):
        aa = reorder(aa, case['node_order'])
    roundtrip_case(ctx, case, aa.copy())
    embed_case(ctx, case, cg, aa)


def replay(payload):
    import check
    ctx = check.Ctx(PROP, 'quick', 0, oracle_only=True)
    case = payload['case']
    r = impl.resolver_from_string(case['s'], legacy=case.get('legacy', True))
    with lib.quiet():
        cg, aa = r.resolve()
    if case.get('embedded_before'):
        # the failure needs the same compound to have been embedded before, in its original node order
        embed_case(ctx, dict(case, node_order=None, embedded_before=False), cg, aa.copy())
    if case.get('node_order'):
        aa = reorder(aa, case['node_order'])
    roundtrip_case(ctx, case, aa.copy())
    embed_case(ctx, case, cg, aa)
    for c, what, fid in ctx.failures:
        print('FAILS:', what, f'[{fid}]' if fid else '')
    print('input:', case.get('s'))
    return 1 if ctx.failures else 0


def finding_still_fails(f):
    import json, os, check
    path = os.path.join(lib.VERIF, f.get('witness', ''))
    if not os.path.exists(path):
        return None
    with open(path) as fh:
        payload = json.load(fh)
    ctx = check.Ctx(PROP, 'quick', 0, oracle_only=True)
    case = payload['case']
    r = impl.resolver_from_string(case['s'], legacy=case.get('legacy', True))
    with lib.quiet():
        cg, aa = r.resolve()
    roundtrip_case(ctx, case, aa.copy())
    return bool(ctx.failures)
