"""
C04 — the graph reader implements the documented grammar.
"""
import itertools

import gen_graph
import lib
import suites

PROP = 'C04'
LEAN_TARGETS = ['CGV.Props.C04', 'CGV.Props.C04Tree', 'CGV.Props.C04Ring', 'CGV.Props.C04Bare', 'CGV.Props.C04Anno']
RULE = ('ASTs of the documented graph grammar (named nodes with annotations, chains, nested branches incl. consecutive '
        'closings, digit and %nn ring bonds with bond symbols, bond symbols between nodes / before ring markers / before '
        'and after branches, explicit "-"), rendered and read by implementation and Lean model (exact dump); character-'
        'level mutations of valid strings (malformed stream) compare error classes too; thorough: exhaustive over all '
        'ASTs with <= 4 nodes over a 2-letter alphabet and bond orders {1,2,0}; oracle: independent denotation of the '
        'AST; non-trivial = string longer than one node; distinct by structural fingerprint')
ASSUMPTIONS = ['re.finditer for the one pattern and the annotation float() grammar are modelled external']


def oracle(ctx, case, got):
    if case.get('kind') != 'graph' or 'ast' not in case:
        return
    if got[0] != 'ok':
        ctx.fail({'kind': 'graph', 's': case['s'], 'ast': case['ast']}, f'grammar string rejected: {got[1]}')
        return
    ref = gen_graph.denote(case['ast'])
    d = gen_graph.same_graph(got[1], ref)
    if d:
        ctx.fail({'kind': 'graph', 's': case['s'], 'ast': case['ast']}, d)
        return
    # annotation values (via the independent expectations of C14's oracle)
    from props.c14 import expected_base
    for n in ref.nodes:
        exp = expected_base(ref.nodes[n]['name'], ref.nodes[n]['anno'])
        if exp is None:
            continue
        have = {k: v for k, v in got[1].nodes[n].items()}
        if have != exp:
            ctx.fail({'kind': 'graph', 's': case['s'], 'ast': case['ast']}, f'node {n}: attributes {have} expected {exp}')
            return


def small_asts(maxnodes, names='AB', orders=(1, 2, 0)):
    """all chains with at most `maxnodes` nodes (branches nested arbitrarily, no rings)"""
    def chains(n):
        # a chain with exactly n nodes: first item takes k nodes in its branches
        if n == 0:
            yield []
            return
        for first_total in range(1, n + 1):
            for item in items(first_total):
                for rest in chains(n - first_total):
                    yield [item] + rest

    def items(n):
        # an item with n nodes in total: the node itself + branches partitioning n-1 nodes
        for name in names:
            for order in orders:
                for brs in branch_lists(n - 1):
                    yield dict(name=name, anno=[], order=order, branches=brs, mult=1, morder=1, rings=[])

    def branch_lists(n):
        if n == 0:
            yield []
            return
        for k in range(1, n + 1):
            for b in chains(k):
                if not b:
                    continue
                for rest in branch_lists(n - k):
                    yield [b] + rest
    for n in range(1, maxnodes + 1):
        yield from chains(n)


def ringspec_case(rng):
    """a string drawn straight from the grammar of Spec/Ring.lean, i.e. from the quantifier of the theorem
    C04_read_ring: every node carries any list of markers, each with any bond symbol (or none) in front, written as
    a digit or as %dd, ids drawn from a small pool so that markers close, re-open on the same node, nest and
    interleave - or stay open / duplicate a bond, in which case SyntaxError is what the grammar denotes.  The only
    constraint is the theorem's `MarksOk`: the marker after a %dd marker does not start with a digit."""
    n = rng.randint(1, 8)
    pool = rng.sample(range(10), rng.randint(1, 3))
    items = []
    opened = {}

    def add(marks, rid, k):
        pct = rid >= 10 or rng.random() < 0.25
        order = rng.choice([1, 1, 1, 2, 0, 3, 4])
        if marks and marks[-1][2] and not pct and order == 1:
            order = rng.choice([2, 0, 3, 4])
        marks.append((rid, order, pct))
        if rid in opened:
            del opened[rid]
        else:
            opened[rid] = k
    for i in range(n):
        marks = []
        for _ in range(rng.choice([0, 0, 1, 1, 2, 3])):
            # mostly well-formed: prefer closing a marker opened at least two nodes back
            closable = [r for r, k in opened.items() if k < i - 1]
            if closable and rng.random() < 0.6:
                rid = rng.choice(closable)
            else:
                # (a marker opened and closed on one and the same node is outside the documented grammar: not written)
                free = [r for r in pool + ([rng.choice([10, 12, 37, 99])] if rng.random() < 0.15 else []) if opened.get(r) != i and (opened.get(r) != i - 1 or rng.random() < 0.1)]
                # a marker opened on one of the last two nodes can only stay open or duplicate a chain bond: rarely
                if not free or (i > n - 3 and not any(r in opened for r in free) and rng.random() < 0.9):
                    continue
                rid = rng.choice(free)
            add(marks, rid, i)
        if i == n - 1 and rng.random() < 0.85:
            for rid in [r for r, k in opened.items() if k != i]:
                add(marks, rid, i)
        items.append({'name': rng.choice(['A', 'B', 'C1', 'PEO', 'x9']), 'order': rng.choice([1, 1, 1, 2, 0, 3, 4]), 'marks': marks})
    s = '{'
    for i, it in enumerate(items):
        if i:
            s += gen_graph.SYM[it['order']]
        s += '[#%s]' % it['name']
        for rid, order, pct in it['marks']:
            s += gen_graph.SYM[order] + ('%%%02d' % rid if pct else str(rid))
    return {'kind': 'ringspec', 's': s + '}', 'items': items}


def ringspec_denote(items):
    """Python mirror of `ringGraph` (Spec/Ring.lean): ('ok', nodes, edges) or ('err', 'SyntaxError')"""
    names, edges, opened = [], {}, {}
    for k, it in enumerate(items):
        names.append(it['name'])
        if k:
            edges[frozenset((k - 1, k))] = it['order']
        todo = []
        for rid, order, _ in it['marks']:
            if rid in opened:
                node, o = opened.pop(rid)
                todo.append((k, node, o))
            else:
                opened[rid] = (k, order)
        for a, b, o in todo:
            if frozenset((a, b)) in edges:
                return ('err', 'syntax')
            edges[frozenset((a, b))] = o
    if opened:
        return ('err', 'syntax')
    return ('ok', names, edges)


def ringspec_oracle(ctx, case, got):
    if case.get('kind') != 'ringspec':
        return
    want = ringspec_denote(case['items'])
    payload = {'kind': 'ringspec', 's': case['s'], 'items': case['items']}
    if want[0] == 'err':
        if got[0] == 'ok':
            ctx.fail(payload, 'the grammar denotes SyntaxError (open marker or duplicate bond), the reader returns a graph')
        elif got[1] != 'syntax':
            ctx.fail(payload, f'the grammar denotes SyntaxError, the reader raises {got[1]}')
        return
    if got[0] != 'ok':
        ctx.fail(payload, f'grammar string rejected: {got[1]}')
        return
    g = got[1]
    names = [g.nodes[k].get('fragname') for k in sorted(g.nodes)]
    if sorted(g.nodes) != list(range(len(want[1]))) or names != want[1]:
        ctx.fail(payload, f'nodes {names}, denoted {want[1]}')
        return
    have = {frozenset(e[:2]): e[2] for e in g.edges(data='order')}
    if have != want[2]:
        a = sorted((sorted(k), v) for k, v in have.items() if want[2].get(k) != v)[:4]
        b = sorted((sorted(k), v) for k, v in want[2].items() if have.get(k) != v)[:4]
        ctx.fail(payload, f'edges differ: read {a}, denoted {b}')


def run(ctx):
    rng = ctx.rng('graphstr')
    for _ in range(ctx.budget(1500, 30000)):
        if ctx.out_of_time():
            break
        case = gen_graph.graph_case(rng, annos=rng.random() < 0.3)
        suites.run_read_case(ctx, 'graphstr', case['s'], oracle=oracle, case=case)
        ctx.feature('rings=%d' % min(case['nrings'], 4))
        if '))' in case['s']:
            ctx.feature('consecutive-closings')
    # the quantifier of C04_read_ring itself (seeded change C04-14: a symbol in front of a closing marker was inside the
    # theorem's grammar but never written by the generator above, so the tie did not cover it)
    rng_r = ctx.rng('ringspec')
    for _ in range(ctx.budget(700, 12000)):
        if ctx.out_of_time():
            break
        case = ringspec_case(rng_r)
        got = suites.run_read_case(ctx, 'ringspec', case['s'], oracle=ringspec_oracle, case=case)
        ctx.feature('ringspec:' + ('graph' if got[0] == 'ok' else 'rejected'))
    # letters outside ASCII in node names and annotation values (the documented grammar does not restrict names to ASCII; the
    # model does, so these are looked at by the denotation oracle alone)
    rng_u = ctx.rng('non-ascii')
    for _ in range(ctx.budget(40, 600)):
        case = gen_graph.graph_case(rng_u, annos=False)
        items = list(gen_graph.flat_items(case['ast']))
        for it in rng_u.sample(items, min(len(items), rng_u.randint(1, 2))):
            if rng_u.random() < 0.5:
                it['name'] = rng_u.choice(['α', 'β1', 'Å', 'é'])
            else:
                it['anno'] = list(it.get('anno', [])) + [rng_u.choice(['unit=Å', 'lab=é', 'k=αβ'])]
        case = dict(case, s='{' + gen_graph.render(case['ast']) + '}')
        suites.run_read_case(ctx, 'graphstr-non-ascii', case['s'], oracle=oracle, case=case)
    ctx.feature('non-ascii-names')
    # malformed stream: model fidelity on what the reader rejects / mis-reads
    for _ in range(ctx.budget(1500, 30000)):
        case = gen_graph.graph_case(rng, maxnodes=8, mult=rng.random() < 0.3)
        s = case['s']
        for _ in range(rng.randint(1, 2)):
            s = gen_graph.mutate(rng, s) or '{'
        suites.run_read_case(ctx, 'graphstr-bad', s, nontrivial=True)
    if ctx.tier == 'thorough' and not ctx.oracle_only:
        n = 0
        for ast in small_asts(4):
            # the first node's incoming order is not written
            ast[0]['order'] = 1
            case = {'kind': 'graph', 's': '{' + gen_graph.render(ast) + '}', 'ast': ast, 'nrings': 0}
            suites.run_read_case(ctx, 'graphstr-exhaustive', case['s'], oracle=oracle, case=case)
            n += 1
        ctx.feature('exhaustive-asts', n)


def corpus_case(ctx, payload):
    case = payload.get('case', {})
    suites.run_read_case(ctx, 'corpus', case['s'], oracle=ringspec_oracle if case.get('kind') == 'ringspec' else oracle, case=case)


def replay(payload):
    import check
    ctx = check.Ctx(PROP, 'quick', 0, oracle_only=True)
    case = payload['case']
    got = suites.run_read_case(ctx, 'replay', case['s'], oracle=ringspec_oracle if case.get('kind') == 'ringspec' else oracle, case=case)
    print('input:', case['s'])
    print('result:', got[1] if got[0] == 'err' else (list(got[1].nodes(data='fragname')), list(got[1].edges(data='order'))))
    for c, what, _ in ctx.failures:
        print('FAILS:', what)
    return 1 if ctx.failures else 0


def finding_still_fails(f):
    return False
