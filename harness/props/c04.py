"""
C04 — the graph reader implements the documented grammar.
"""
import itertools

import gen_graph
import lib
import suites

PROP = 'C04'
LEAN_TARGETS = ['CGV.Props.C04', 'CGV.Props.C04Tree', 'CGV.Props.C04Ring', 'CGV.Props.C04Bare', 'CGV.Props.C04Anno']
RULE = ('ASTs of the documented graph grammar (named nodes with annotations, chains, nested branches incl. consecutive '
        'closings, digit and %nn ring bonds with bond symbols, bond symbols between nodes / before ring markers / before '
        'and after branches, explicit "-"), rendered and read by implementation and Lean model (exact dump); character-'
        'level mutations of valid strings (malformed stream) compare error classes too; thorough: exhaustive over all '
        'ASTs with <= 4 nodes over a 2-letter alphabet and bond orders {1,2,0}; oracle: independent denotation of the '
        'AST; non-trivial = string longer than one node; distinct by structural fingerprint')
ASSUMPTIONS = ['re.finditer for the one pattern and the annotation float() grammar are modelled external']


def oracle(ctx, case, got):
    if case.get('kind') != 'graph' or 'ast' not in case:
        return
    if got[0] != 'ok':
        ctx.fail({'kind': 'graph', 's': case['s'], 'ast': case['ast']}, f'grammar string rejected: {got[1]}')
        return
    ref = gen_graph.denote(case['ast'])
    d = gen_graph.same_graph(got[1], ref)
    if d:
        ctx.fail({'kind': 'graph', 's': case['s'], 'ast': case['ast']}, d)
        return
    # annotation values (via the independent expectations of C14's oracle)
    from props.c14 import expected_base
    for n in ref.nodes:
        exp = expected_base(ref.nodes[n]['name'], ref.nodes[n]['anno'])
        if exp is None:
            continue
        have = {k: v for k, v in got[1].nodes[n].items()}
        if have != exp:
            ctx.fail({'kind': 'graph', 's': case['s'], 'ast': case['ast']}, f'node {n}: attributes {have} expected {exp}')
            return


def small_asts(maxnodes, names='AB', orders=(1, 2, 0)):
    """all chains with at most `maxnodes` nodes (branches nested arbitrarily, no rings)"""
    def chains(n):
        # a chain with exactly n nodes: first item takes k nodes in its branches
        if n == 0:
            yield []
            return
        for first_total in range(1, n + 1):
            for item in items(first_total):
                for rest in chains(n - first_total):
                    yield [item] + rest

    def items(n):
        # an item with n nodes in total: the node itself + branches partitioning n-1 nodes
        for name in names:
            for order in orders:
                for brs in branch_lists(n - 1):
                    yield dict(name=name, anno=[], order=order, branches=brs, mult=1, morder=1, rings=[])

    def branch_lists(n):
        if n == 0:
            yield []
            return
        for k in range(1, n + 1):
            for b in chains(k):
                if not b:
                    continue
                for rest in branch_lists(n - k):
                    yield [b] + rest
    for n in range(1, maxnodes + 1):
        yield from chains(n)


def run(ctx):
    rng = ctx.rng('graphstr')
    for _ in range(ctx.budget(1500, 30000)):
        if ctx.out_of_time():
            break
        case = gen_graph.graph_case(rng, annos=rng.random() < 0.3)
        suites.run_read_case(ctx, 'graphstr', case['s'], oracle=oracle, case=case)
        ctx.feature('rings=%d' % min(case['nrings'], 4))
        if '))' in case['s']:
            ctx.feature('consecutive-closings')
    # letters outside ASCII in node names and annotation values (the documented grammar does not restrict names to ASCII; the
    # model does, so these are looked at by the denotation oracle alone)
    rng_u = ctx.rng('non-ascii')
    for _ in range(ctx.budget(40, 600)):
        case = gen_graph.graph_case(rng_u, annos=False)
        items = list(gen_graph.flat_items(case['ast']))
        for it in rng_u.sample(items, min(len(items), rng_u.randint(1, 2))):
            if rng_u.random() < 0.5:
                it['name'] = rng_u.choice(['α', 'β1', 'Å', 'é'])
            else:
                it['anno'] = list(it.get('anno', [])) + [rng_u.choice(['unit=Å', 'lab=é', 'k=αβ'])]
        case = dict(case, s='{' + gen_graph.render(case['ast']) + '}')
        suites.run_read_case(ctx, 'graphstr-non-ascii', case['s'], oracle=oracle, case=case)
    ctx.feature('non-ascii-names')
    # malformed stream: model fidelity on what the reader rejects / mis-reads
    for _ in range(ctx.budget(1500, 30000)):
        case = gen_graph.graph_case(rng, maxnodes=8, mult=rng.random() < 0.3)
        s = case['s']
        for _ in range(rng.randint(1, 2)):
            s = gen_graph.mutate(rng, s) or '{'
        suites.run_read_case(ctx, 'graphstr-bad', s, nontrivial=True)
    if ctx.tier == 'thorough' and not ctx.oracle_only:
        n = 0
        for ast in small_asts(4):
            # the first node's incoming order is not written
            ast[0]['order'] = 1
            case = {'kind': 'graph', 's': '{' + gen_graph.render(ast) + '}', 'ast': ast, 'nrings': 0}
            suites.run_read_case(ctx, 'graphstr-exhaustive', case['s'], oracle=oracle, case=case)
            n += 1
        ctx.feature('exhaustive-asts', n)


def corpus_case(ctx, payload):
    case = payload.get('case', {})
    suites.run_read_case(ctx, 'corpus', case['s'], oracle=oracle, case=case)


def replay(payload):
    import check
    ctx = check.Ctx(PROP, 'quick', 0, oracle_only=True)
    case = payload['case']
    got = suites.run_read_case(ctx, 'replay', case['s'], oracle=oracle, case=case)
    print('input:', case['s'])
    print('result:', got[1] if got[0] == 'err' else (list(got[1].nodes(data='fragname')), list(got[1].edges(data='order'))))
    for c, what, _ in ctx.failures:
        print('FAILS:', what)
    return 1 if ctx.failures else 0


def finding_still_fails(f):
    return False
