"""
C05 — the multiplication operator is shorthand for writing the unit out.
"""
import gen_graph
import lib
import suites

PROP = 'C05'
LEAN_TARGETS = ['CGV.Props.C05']
RULE = ('grammar ASTs with |n on nodes (any position: first node, inside branches, before closings, followed by a bond '
        'symbol) and on anchor+branch units (bond symbol between copies, bond symbol to what follows, nested plain '
        'branches), annotations and bond orders; shorthand read by implementation and Lean model (exact dump); oracle: '
        'reading the shorthand equals (node multipliers: identical numbering) / is isomorphic to (branch multipliers) '
        'reading the written-out string; non-trivial = at least one multiplier')
ASSUMPTIONS = ['open findings R4-R6: multiplied units inside multiplied branches / several multiplied units per branch']


def node_mult_only(chain):
    return all((it.get('mult', 1) == 1 or not it['branches']) and not it.get('show1') and
               all(node_mult_only(b) for b in it['branches']) for it in chain)


def tags(ast):
    """syntactic features of a shorthand AST that the open findings are tied to.  The classes are as
    narrow as the behaviour of the unchanged tree allows (measured on 70 000 generated strings per
    class: every shape left outside a class reads correctly today, so a failure there is new)."""
    out = set()

    def nest_depth(chain):
        d = 0
        for it in chain:
            for b in it['branches']:
                d = max(d, 1 + nest_depth(b))
        return d

    def walk(chain, depth, in_mult=False, dirty=False):
        # dirty: some enclosing chain that itself lies inside a branch holds a branch in front of the path to here
        for i, it in enumerate(chain):
            shown = it.get('mult', 1) > 1 or it.get('show1')
            m = it.get('mult', 1)
            if shown and it['branches']:
                if m >= 2 and depth > 0 and (dirty or in_mult or any(x['branches'] for x in chain[:i])):
                    out.add('R6c')                     # multiplied unit inside a branch that already contains a branch / nested twice / inside a multiplied branch
                if m >= 2 and len(it['branches']) > 1:
                    out.add('R6a')                     # more than one branch on the multiplied anchor
                for b in it['branches']:
                    items = list(gen_graph.flat_items(b))
                    if m >= 2 and any(((x.get('mult', 1) > 1 and not x['branches']) or (x.get('nmult', 1) > 1 and x['branches']))
                                      and x['order'] != 1 for x in items):
                        out.add('R4')                  # multiplied node with incoming order != 1 in a multiplied branch
                    nnest = sum(len(x['branches']) for x in items)
                    if nnest:
                        closes_together = bool(b and b[-1]['branches'])     # '))|n'
                        if m >= 3 or closes_together or (m == 2 and (nnest > 1 or nest_depth(b) > 1)):
                            out.add('R6b')             # nested branch inside a multiplied branch
                    if any(x.get('rings') for x in items):
                        out.add('ring-in-unit')
                if it.get('rings'):
                    out.add('ring-in-unit')
            for bi, b in enumerate(it['branches']):
                walk(b, depth + 1, in_mult or (shown and m >= 2),
                     dirty or (depth >= 1 and (bi > 0 or any(x['branches'] for x in chain[:i]))))
    walk(ast, 0)
    return out


def classify(ast):
    """the open finding a failing shorthand falls under (None = must hold)"""
    t = tags(ast)
    for fid in ('R4', 'R6a', 'R6b', 'R6c'):
        if fid in t:
            return fid
    return None


def oracle(ctx, case, got):
    if 'ast' not in case or not (gen_graph.has_mult(case['ast']) or any(x.get('show1') for x in gen_graph.flat_items(case['ast']))):
        return
    if 'ring-in-unit' in tags(case['ast']):
        return          # ring markers inside multiplied units are outside the property's domain
    from cgsmiles.read_cgsmiles import read_cgsmiles
    slim = {'kind': 'graph', 's': case['s'], 'ast': case['ast']}
    fid = classify(case['ast'])
    long_ast = gen_graph.expand(case['ast'])
    long_s = '{' + gen_graph.render(long_ast) + '}'
    slim['longhand'] = long_s
    try:
        with lib.quiet():
            ref = read_cgsmiles(long_s)
    except Exception as err:    # noqa: BLE001
        ctx.fail(slim, f'written-out string rejected: {lib.err_class(err)}')
        return
    if got[0] != 'ok':
        ctx.fail(slim, f'shorthand rejected ({got[1]}) but the written-out string {long_s} is read', finding=fid)
        return
    g = got[1]
    exact = (sorted(g.nodes(data='fragname')) == sorted(ref.nodes(data='fragname')) and
             {frozenset(e[:2]): e[2] for e in g.edges(data='order')} == {frozenset(e[:2]): e[2] for e in ref.edges(data='order')})
    if node_mult_only(case['ast']):
        if not exact:
            ctx.fail(slim, f'shorthand and written-out string {long_s} read differently (numbering must be identical for node multipliers)', finding=fid)
        return
    import networkx as nx
    same = nx.is_isomorphic(g, ref, node_match=lambda a, b: {k: v for k, v in a.items()} == {k: v for k, v in b.items()},
                            edge_match=lambda a, b: a.get('order') == b.get('order'))
    if not same:
        ctx.fail(slim, f'shorthand is not isomorphic to the written-out string {long_s}', finding=fid)


def fragment_mult_case(rng):
    """a coarse fragment definition that uses node multipliers, with bonding descriptors and annotated beads behind them:
    the shorthand and the written-out definition must give the same fragment (names, weights, descriptors on the same
    beads, bond orders)"""
    n = rng.randint(2, 4)
    short, long = '', ''
    r7 = False
    seen_big = False
    for i in range(n):
        name = rng.choice(['B', 'C', 'D'])
        w = rng.choice([None, None, None, None, '2', '0.5'])
        node = '[#%s%s]' % (name, ';w=' + w if w else '')
        m = rng.choice([1, 1, 1, 2, 2, 2, 3, 4])
        desc = rng.choice(['', '', '[$x]', '[>]', '[$y][<]'])
        sym = rng.choice(['', '', '=']) if i else ''
        if seen_big and (w or desc):
            r7 = True
        short += sym + node + ('|%d' % m if m > 1 else '') + desc
        long += sym + node + node * (m - 1) + desc
        if m >= 2 and w:
            r7 = True          # the annotation of a multiplied bead reaches one copy only
        if m >= 3:
            seen_big = True
            if desc:
                r7 = True
    return {'kind': 'fragment-mult', 's': '{#A=%s}' % short, 'longhand': '{#A=%s}' % long, 'r7': r7}


def fragment_mult_oracle(ctx, case):
    import networkx as nx
    from cgsmiles.read_fragments import read_fragments
    got = []
    for s in (case['s'], case['longhand']):
        try:
            with lib.quiet():
                got.append(read_fragments(s, all_atom=False)['A'])
        except Exception as err:    # noqa: BLE001
            got.append(lib.err_class(err))
    ctx.count('fragment-mult', lib.stable_hash(case['s']), nontrivial='|' in case['s'], sample=case['s'])
    fid = 'R7' if case['r7'] else None
    if isinstance(got[1], str):
        return
    if isinstance(got[0], str):
        ctx.fail(case, f'fragment definition with node multipliers rejected ({got[0]}), the written-out definition is read', finding=fid)
        return

    def nm(a, b):
        return a.get('atomname') == b.get('atomname') and a.get('weight') == b.get('weight') and \
            sorted(a.get('bonding', []) or []) == sorted(b.get('bonding', []) or [])
    if not nx.is_isomorphic(got[0], got[1], node_match=nm, edge_match=lambda a, b: a.get('order') == b.get('order')):
        ctx.fail(case, f'fragment definition {case["s"]} is not the written-out definition {case["longhand"]}: '
                       f'descriptors / weights sit on other beads', finding=fid)


def run(ctx):
    rng2 = ctx.rng('fragment-mult')
    for _ in range(ctx.budget(150, 3000)):
        c = fragment_mult_case(rng2)
        ctx.feature('fragment-mult:' + ('R7-shape' if c['r7'] else 'must-hold'))
        fragment_mult_oracle(ctx, c)
    rng = ctx.rng('mult')
    for i in range(ctx.budget(2500, 50000)):
        if ctx.out_of_time():
            break
        case = gen_graph.graph_case(rng, maxnodes=10, rings=(i % 3 == 0), annos=(i % 4 == 0), mult=True)
        if not gen_graph.has_mult(case['ast']):
            continue
        suites.run_read_case(ctx, 'graphstr-mult', case['s'], oracle=oracle, case=case)
        ctx.feature('class:' + str(classify(case['ast'])))
        ctx.feature('node-mult-only' if node_mult_only(case['ast']) else 'branch-mult')


def corpus_case(ctx, payload):
    case = payload.get('case', {})
    if case.get('kind') == 'fragment-mult':
        fragment_mult_oracle(ctx, case)
        return
    suites.run_read_case(ctx, 'corpus', case['s'], oracle=oracle, case=case)


def replay(payload):
    import check
    ctx = check.Ctx(PROP, 'quick', 0, oracle_only=True)
    case = payload['case']
    if case.get('kind') == 'fragment-mult':
        fragment_mult_oracle(ctx, case)
    else:
        suites.run_read_case(ctx, 'replay', case['s'], oracle=oracle, case=case)
    print('input:', case['s'], ' written out:', case.get('longhand'))
    for c, what, fid in ctx.failures:
        print('FAILS:', what, f'[{fid}]' if fid else '')
    return 1 if ctx.failures else 0


FINDING_WITNESS = {}


def finding_still_fails(f):
    import check
    import json, os
    path = os.path.join(lib.VERIF, f.get('witness', ''))
    if not os.path.exists(path):
        return None
    with open(path) as fh:
        payload = json.load(fh)
    ctx = check.Ctx(PROP, 'quick', 0, oracle_only=True)
    case = payload['case']
    if case.get('kind') == 'fragment-mult':
        fragment_mult_oracle(ctx, case)
    else:
        suites.run_read_case(ctx, 'finding', case['s'], oracle=oracle, case=case)
    return bool(ctx.failures)
