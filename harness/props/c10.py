"""
C10 — shared atoms: the squash operator merges exactly the two marked atoms.
"""
import networkx as nx

import gen_mol
import impl
import lib
import suites
from props.c01 import nm, em, em_ref

PROP = 'C10'
LEAN_TARGETS = ['CGV.Props.C10', 'CGV.Props.C10Multi', 'CGV.Props.C10Reach', 'CGV.Props.C10Quot', 'CGV.Props.C10Members']
RULE = ('fragmented molecules in which a random subset of the cut bonds is replaced by sharing one end atom ("!" pair), '
        'incl. several shared atoms per fragment, one atom shared by three fragments (star and mutually connected), chains of shared atoms, shared aromatic atoms, shared '
        'atoms that also carry ordinary descriptors; resolution executed by implementation and Lean model (exact '
        'dump); oracle: overlapping description resolves to the generator\'s molecule, node count = fragments\' atoms '
        'minus shared pairs, merged atoms belong to both coarse nodes; non-trivial = at least one shared pair')
ASSUMPTIONS = ['pysmiles.correct_aromatic_rings recorded; shared AROMATIC ring atoms with substituents are the open finding Q2']


def oracle(ctx, case, steps, ctor_err):
    if case.get('kind') != 'cut' or not case.get('nshared'):
        return
    if steps is None:
        ctx.fail(suites.slim(case), f'overlapping description rejected while reading: {ctor_err[1]}')
        return
    last = steps[-1]
    if last['result'] != 'ok':
        ctx.fail(suites.slim(case), f'overlapping description rejected: {last["result"]} {last.get("message", "")[:70]}',
                 finding=classify(case))
        return
    fine = last['fine_graph']
    ref = gen_mol.ref_from_case(case)
    if fine.number_of_nodes() != ref.number_of_nodes():
        ctx.fail(suites.slim(case), f'{fine.number_of_nodes()} atoms, the molecule has {ref.number_of_nodes()} '
                                    f'({case["nshared"]} shared pairs)', finding=classify(case))
        return
    if not nx.is_isomorphic(fine, ref, node_match=nm, edge_match=em_ref):
        ctx.fail(suites.slim(case), 'overlapping description does not resolve to the molecule', finding=classify(case))
        return
    multi = [n for n, d in fine.nodes(data=True) if len(d.get('fragid', [])) > 1]
    if len(multi) == 0:
        ctx.fail(suites.slim(case), 'no atom belongs to two coarse nodes although atoms are shared')
    meta = last['meta_graph']
    for n in multi:
        for k in fine.nodes[n]['fragid']:
            g = meta.nodes[k].get('graph')
            if g is None or n not in g:
                ctx.fail(suites.slim(case), f'shared atom {n} is missing from coarse node {k}')
    # the merged atom belongs to EVERY coarse node that described it: each coarse node still carries a full copy of its
    # fragment (an atom merged twice must not lose the membership it got from the first merge)
    from props import c02
    c02.oracle(ctx, case, steps, None)


def hier_oracle(ctx, case, steps, ctor_err):
    """sharing between COARSE fragments (beads shared by two groups at an intermediate level): the multi-level
    description must still end in the generator's molecule"""
    if case.get('kind') != 'hier' or not case.get('nshared_upper'):
        return
    if steps is None:
        ctx.fail(suites.slim(case), f'multi-level description with shared beads rejected while reading: {ctor_err[1]}')
        return
    last = steps[-1]
    if last['result'] != 'ok':
        ctx.fail(suites.slim(case), f'multi-level description with shared beads rejected at level {last["level"]}: {last["result"]}')
        return
    fine = last['fine_graph']
    ref = gen_mol.ref_from_case(case)
    if fine.number_of_nodes() != ref.number_of_nodes() or not nx.is_isomorphic(fine, ref, node_match=nm, edge_match=em_ref):
        ctx.fail(suites.slim(case), f'beads shared between coarse fragments: the description resolves to {fine.number_of_nodes()} atoms / '
                                    f'{fine.number_of_edges()} bonds, the molecule has {ref.number_of_nodes()} / {ref.number_of_edges()}')


def nonlegacy_case(rng):
    """a chain of two-atom units resolved under the label-insensitive convention (legacy=False): neighbouring units
    are joined alternately by sharing an atom ('!'), by a '$' pair or by a '>' '<' pair — never the same kind twice
    in a row, so that with labels ignored every pair is still forced; the labels themselves are arbitrary"""
    k = rng.randint(2, 4)
    kinds = []
    for _ in range(k - 1):
        kinds.append(rng.choice([x for x in ('!', '$', 'arrow') if not kinds or x != kinds[-1]]))
    if '!' not in kinds:
        kinds[rng.randrange(len(kinds))] = '!'
        for i in range(1, len(kinds)):
            if kinds[i] == kinds[i - 1]:
                kinds[i] = rng.choice([x for x in ('$', 'arrow') if x != kinds[i - 1] and (i + 1 >= len(kinds) or x != kinds[i + 1])] or ['$'])
    lab = lambda: rng.choice(['', 'a', 'b', 'x1'])
    ref = nx.Graph()
    frags, last_atom = [], None
    for i in range(k):
        first_el = 'C' if (i > 0 and kinds[i - 1] == '!') else rng.choice(['C', 'C', 'N'])
        last_el = 'C' if (i < k - 1 and kinds[i] == '!') else rng.choice(['C', 'C', 'O'] if i == k - 1 else ['C', 'C', 'N'])
        left = '' if i == 0 else {'!': '[!%s]' % lab(), '$': '[$%s]' % lab(), 'arrow': '[<%s]' % lab()}[kinds[i - 1]]
        right = '' if i == k - 1 else {'!': '[!%s]' % lab(), '$': '[$%s]' % lab(), 'arrow': '[>%s]' % lab()}[kinds[i]]
        # the unit's first atom carries the link to the left, its last atom the link to the right
        # (written in either direction: which descriptor the matcher meets first must not matter)
        frags.append('#U%d=%s%s%s%s' % ((i, first_el, left, last_el, right) if rng.random() < 0.5 else (i, last_el, right, first_el, left)))
        if i > 0 and kinds[i - 1] == '!':
            a = last_atom                      # shared with the previous unit's last atom
        else:
            a = len(ref)
            ref.add_node(a, element=first_el)
            if i > 0:
                ref.add_edge(last_atom, a)
        b = len(ref)
        ref.add_node(b, element=last_el)
        ref.add_edge(a, b)
        last_atom = b
    val = {'C': 4, 'N': 3, 'O': 2}
    for n in list(ref.nodes):
        for _ in range(val[ref.nodes[n]['element']] - ref.degree(n)):
            h = len(ref)
            ref.add_node(h, element='H')
            ref.add_edge(n, h)
    s = '{' + ''.join('[#U%d]' % i for i in range(k)) + '}.{' + ','.join(rng.sample(frags, len(frags))) + '}'
    return {'kind': 'nonlegacy-share', 's': s, 'all_atom': True, 'legacy': False, 'nshared': kinds.count('!'),
            'ref': {'n': [[n, d['element']] for n, d in ref.nodes(data=True)], 'e': [list(e) for e in ref.edges]}}


def nonlegacy_oracle(ctx, case, steps, ctor_err):
    if steps is None:
        ctx.fail(suites.slim(case), f'description rejected while reading: {ctor_err[1]}')
        return
    st = steps[-1]
    if st['result'] != 'ok':
        ctx.fail(suites.slim(case), f'description rejected under the label-insensitive convention: {st["result"]}')
        return
    ref = nx.Graph()
    ref.add_nodes_from((n, {'element': el}) for n, el in case['ref']['n'])
    ref.add_edges_from(case['ref']['e'])
    fine = st['fine_graph']
    if fine.number_of_nodes() != ref.number_of_nodes() or \
            not nx.is_isomorphic(fine, ref, node_match=lambda a, b: a.get('element') == b.get('element')):
        ctx.fail(suites.slim(case), f'label-insensitive convention: the description resolves to {fine.number_of_nodes()} atoms / '
                                    f'{fine.number_of_edges()} bonds, the molecule has {ref.number_of_nodes()} / {ref.number_of_edges()} '
                                    f'({case["nshared"]} shared atoms)')


def share_extra_case(rng):
    """two fragments sharing one atom that ALSO carries ordinary descriptors on both copies (quantifier: "shared atoms that
    also carry ordinary descriptors"): 'R1-X[!][$]' and 'X[$][!]-R2', further fragments attached through the '$' of either
    copy.  Every base-graph edge has its dedicated pair; the shared pair is written first on the fragment that comes first."""
    chains = {'': [], 'O': ['O'], 'N': ['N'], 'CC': ['C', 'C'], 'C': ['C'], 'OC': ['O', 'C']}
    r1 = rng.choice(['O', 'N', 'CC', 'C'])
    r2 = rng.choice(['CC', 'C', 'O', 'OC'])
    subs = ['N', 'F', 'Cl', 'O', 'OC']
    ea = [rng.choice(subs) for _ in range(rng.randint(0, 1))]
    eb = [rng.choice(subs) for _ in range(rng.randint(0 if ea else 1, 1))]
    labelled = rng.random() < 0.4
    if labelled:
        # every ordinary descriptor has its own label (no two of them fit each other), and the shared pair is written
        # LAST on both copies: no atom of the description has '!' as its first descriptor
        ea = ea or [rng.choice(subs)]
        eb = eb or [rng.choice(subs)]
        la = ['$a%d' % i for i in range(len(ea))]
        lb = ['$b%d' % i for i in range(len(eb))]
        da = ['[%s]' % l for l in la] + ['[!s]']
        db = ['[%s]' % l for l in lb] + ['[!s]']
    else:
        la, lb = ['$'] * len(ea), ['$'] * len(eb)
        da = ['[!]'] + ['[$]'] * len(ea)                     # the shared pair first on the first fragment
        db = ['[!]'] + ['[$]'] * len(eb)
        rng.shuffle(db)                                      # any order on the second
    frag_a = r1 + 'C' + ''.join(da)
    frag_b = 'C' + ''.join(db) + r2
    names, defs = [], ['#A=' + frag_a, '#B=' + frag_b]
    # the edge between the two sharing fragments comes FIRST in the base graph: all ordinary descriptors of the shared
    # atom are still there when the shared pair is matched
    k = 0
    inner = '[#B]'
    for e, l in zip(eb, lb):
        k += 1
        inner += '([#E%d])' % k
        defs.append('#E%d=[%s]%s' % (k, l, e))
    base = '[#A](' + inner + ')' if ea else '[#A]' + inner
    for e, l in zip(ea, la):
        k += 1
        base += '[#E%d]' % k
        defs.append('#E%d=[%s]%s' % (k, l, e))
    # reference molecule (heavy atoms)
    ref = nx.Graph()

    def chain(atoms, attach):
        prev = attach
        for el in atoms:
            n = len(ref)
            ref.add_node(n, element=el)
            if prev is not None:
                ref.add_edge(prev, n)
            prev = n
        return prev
    ref.add_node(0, element='C')                         # the shared atom
    chain(list(reversed(chains[r1])), 0)
    chain(chains[r2], 0)
    for e in ea + eb:
        chain(['Cl'] if e == 'Cl' else chains.get(e, [e]), 0)
    return {'kind': 'share-extra', 's': '{' + base + '}.{' + ','.join(defs) + '}', 'all_atom': True, 'legacy': True, 'nshared': 1,
            'ref': {'n': [[n, d['element']] for n, d in ref.nodes(data=True)], 'e': [list(e) for e in ref.edges]}}


def share_extra_oracle(ctx, case, steps, ctor_err):
    if steps is None or steps[-1]['result'] != 'ok':
        ctx.fail(suites.slim(case), 'description with a shared atom that also carries ordinary descriptors is rejected')
        return
    fine = steps[-1]['fine_graph']
    heavy = fine.subgraph([n for n, d in fine.nodes(data=True) if d.get('element') != 'H'])
    ref = nx.Graph()
    for n, el in case['ref']['n']:
        ref.add_node(n, element=el)
    ref.add_edges_from(case['ref']['e'])
    if heavy.number_of_nodes() != ref.number_of_nodes():
        ctx.fail(suites.slim(case), f'{heavy.number_of_nodes()} heavy atoms, the molecule has {ref.number_of_nodes()} (one shared pair)')
    elif not nx.is_isomorphic(heavy, ref, node_match=lambda a, b: a.get('element') == b.get('element')):
        ctx.fail(suites.slim(case), 'the description with a shared atom carrying ordinary descriptors does not resolve to the molecule')
    elif not any(len(d.get('fragid', [])) > 1 for _, d in fine.nodes(data=True)):
        ctx.fail(suites.slim(case), 'no atom belongs to two coarse nodes although an atom is shared')


def classify(case):
    """Q2: a shared pair whose atom is aromatic (the hydrogen count of the kept copy ignores the bonds it inherits)"""
    if any(k.startswith('aromatic') for k in case.get('shared_kinds', [])):
        return 'Q2'
    return None


def run(ctx):
    rng_n = ctx.rng('nonlegacy')
    for _ in range(ctx.budget(60, 1000)):
        suites.run_resolve_case(ctx, 'nonlegacy-share', nonlegacy_case(rng_n), oracle=nonlegacy_oracle)
    ctx.feature('nonlegacy-share')
    rng_e = ctx.rng('share-extra')
    for _ in range(ctx.budget(40, 600)):
        suites.run_resolve_case(ctx, 'share-extra', share_extra_case(rng_e), oracle=share_extra_oracle)
    ctx.feature('shared-atom-with-ordinary-descriptors')
    rng = ctx.rng('share')
    for i in range(ctx.budget(400, 8000)):
        if ctx.out_of_time():
            break
        if i % 5 == 4:
            case = gen_mol.star_share_case(rng)
        elif i % 5 == 3:
            case = gen_mol.clique_share_case(rng)
        elif i % 5 == 2:
            import gen_levels
            case = gen_levels.hier_case(rng, share_p=0.6)
            suites.run_resolve_case(ctx, 'hier-share', case, oracle=hier_oracle)
            ctx.feature('shared-beads=%d' % min(case['nshared_upper'], 3))
            continue
        else:
            case = gen_mol.cut_case(rng, nmax=10, share_p=rng.choice([0.3, 0.6, 1.0]), aromatic_p=0.0 if i % 4 else 0.4)
        suites.run_resolve_case(ctx, 'mol-share', case, oracle=oracle)
        ctx.feature('shared=%d' % min(case['nshared'], 4))
        for k in case.get('shared_kinds', []):
            ctx.feature('shared-atom:' + k)


def corpus_case(ctx, payload):
    case = payload.get('case', {})
    if isinstance(case, dict) and 's' in case and case.get('kind') != 'compat':
        suites.run_resolve_case(ctx, 'corpus', case, oracle=share_extra_oracle if case.get('kind') == 'share-extra' else oracle)


def replay(payload):
    import check
    ctx = check.Ctx(PROP, 'quick', 0)
    kind = payload['case'].get('kind')
    orc = share_extra_oracle if kind == 'share-extra' else nonlegacy_oracle if kind == 'nonlegacy-share' else \
        hier_oracle if kind == 'hier' else oracle
    suites.run_resolve_case(ctx, 'replay', payload['case'], oracle=orc, compare=False)
    for c, what, _ in ctx.failures:
        print('FAILS:', what)
    print('input:', payload['case'].get('s'))
    return 1 if ctx.failures else 0


def finding_still_fails(f):
    import json, os, check
    path = os.path.join(lib.VERIF, f.get('witness', ''))
    if not os.path.exists(path):
        return None
    with open(path) as fh:
        payload = json.load(fh)
    ctx = check.Ctx(PROP, 'quick', 0, oracle_only=True)
    suites.run_resolve_case(ctx, 'finding', payload['case'], oracle=oracle, compare=False)
    return bool(ctx.failures)
