"""
C01 — cutting a molecule into fragments and resolving gives the molecule back.
"""
import networkx as nx

import gen_mol
import impl
import lib
import suites

PROP = 'C01'
LEAN_TARGETS = ['CGV.Props.C01']
RULE = ('valence-respecting random molecules (organic subset, charged centres, aliphatic/aromatic rings, orders 1-3), '
        'random partition into 1..5 connected fragments, every cut a uniquely labelled $x/$x or >x/<x pair with the '
        'bond order, random SMILES rendering per fragment (start atom, branch order, ring digits, descriptors '
        'before/after ring digits), random base-graph rendering; each resolution step executed by implementation and '
        'Lean model (exact dump); oracle: result isomorphic to the generator\'s molecule and to the uncut resolution; '
        'non-trivial = at least one cut bond; distinct by structural fingerprint')
ASSUMPTIONS = ['pysmiles SMILES reading and correct_aromatic_rings are external (recorded answers; contracts A0-A2)']
TRUSTED_EXTRA = ['pysmiles.read_smiles / correct_aromatic_rings: parameters of the model, not verified']


def nm(a, b):
    return a.get('element') == b.get('element') and a.get('charge', 0) == b.get('charge', 0)


def em(a, b):
    return a.get('order') == b.get('order')


def em_ref(a, b):
    """result edge vs the generator's molecule: pysmiles reports every bond of a ring it perceives as
    aromatic as 1.5 — also in ring systems the generator wrote with alternating single/double bonds"""
    return a.get('order') == b.get('order') or (a.get('order') == 1.5 and b.get('order') in (1, 2))


def oracle(ctx, case, steps, ctor_err):
    if case.get('kind') != 'cut':
        return
    if steps is None:
        ctx.fail(suites.slim(case), f'valid cut description rejected while reading: {ctor_err[1]}')
        return
    last = steps[-1]
    if last['result'] != 'ok':
        ctx.fail(suites.slim(case), f'valid cut description rejected while resolving: {last["result"]} {last.get("message", "")[:80]}',
                 finding=classify(case, last))
        return
    fine = last['fine_graph']
    ref = gen_mol.ref_from_case(case)
    if not nx.is_isomorphic(fine, ref, node_match=nm, edge_match=em_ref):
        ctx.fail(suites.slim(case), 'resolved molecule is not the molecule that was cut '
                                    f'({fine.number_of_nodes()} atoms / {fine.number_of_edges()} bonds vs '
                                    f'{ref.number_of_nodes()} / {ref.number_of_edges()})', finding=classify(case, last))
        return
    # the uncut description must give the same molecule
    try:
        r = impl.resolver_from_string(case['whole'])
        with lib.quiet():
            _, whole = r.resolve()
    except Exception as err:    # noqa: BLE001
        ctx.fail(suites.slim(case), f'uncut description rejected: {lib.err_class(err)}')
        return
    if not nx.is_isomorphic(fine, whole, node_match=nm, edge_match=em):
        ctx.fail(suites.slim(case), 'cut and uncut descriptions resolve to different molecules')


def classify(case, step):
    """A3: a five-membered ring written in lower case with [nH], cut across fragments"""
    return 'A3' if case.get('pyrrole_ring_cut') else None


def marker_case(rng):
    """a ring of five fragments in which the first one carries TWO ring bonds of the base graph, one of order 1 and one of
    order 2 (two cut bonds between the same pair of fragments): every way of writing the two markers — one or two digits,
    either order, the order symbol in front of the marker it belongs to"""
    frags = '{#A=[$p][$q]CC[$r][$s],#B=[$p]N[$t],#C=[$q][$t]C[$u],#D=[$u]O[$v],#E=[$v][$r]CC[$s]}'
    whole = 'C1(N2)C2OC3CC31'
    ids = rng.sample([1, 2, 3, 7, 9, 10, 11, 12, 25, 99], 2)

    def mk(i):
        return str(i) if i < 10 else '%%%d' % i
    x, y = mk(ids[0]), mk(ids[1])           # x: A-C (order 1), y: A-E (order 2)
    marks = [x, '=' + y]
    if rng.random() < 0.5:
        marks.reverse()
    if '%' in marks[0] and marks[1][0].isdigit():
        marks.reverse()                      # a bare digit directly behind '%nn' would be read as part of that marker
    s = '{[#A]%s[#B][#C]%s[#D][#E]%s}.%s' % (''.join(marks), x, y, frags)
    return {'kind': 'marker-combo', 's': s, 'whole': '{[#M]}.{#M=%s}' % whole, 'all_atom': True, 'legacy': True}


def ladder_case(rng):
    """two chains of k atoms joined rung by rung: k cut bonds between the SAME two fragments, the base-graph edge written
    with the symbol of that order ('=', '#', '$' for two, three, four bonds)"""
    k = rng.choice([2, 3, 4, 4])
    a = ''.join('C[$r%d]' % i for i in range(k))
    b = ''.join('C[$r%d]' % i for i in range(k))
    whole = ''.join('C%d' % (i + 1) for i in range(k - 1)) + 'CC' + ''.join('C%d' % i for i in range(k - 1, 0, -1))
    sym = {2: '=', 3: '#', 4: '$'}[k]
    base = rng.choice(['{[#A]%s[#B]}', '{[#B]%s[#A]}']) % sym
    return {'kind': 'marker-combo', 's': '%s.{#A=%s,#B=%s}' % (base, a, b), 'whole': '{[#M]}.{#M=%s}' % whole,
            'all_atom': True, 'legacy': True}


def marker_oracle(ctx, case, steps, ctor_err):
    if steps is None or steps[-1]['result'] != 'ok':
        ctx.fail(suites.slim(case), 'valid cut description (two ring markers on one base-graph node) rejected')
        return
    fine = steps[-1]['fine_graph']
    with lib.quiet():
        _, whole = impl.resolver_from_string(case['whole']).resolve()
    if not nx.is_isomorphic(fine, whole, node_match=nm, edge_match=em):
        ctx.fail(suites.slim(case), f'cut and uncut descriptions resolve to different molecules ({fine.number_of_nodes()} atoms / '
                                    f'{fine.number_of_edges()} bonds vs {whole.number_of_nodes()} / {whole.number_of_edges()})')


def run(ctx):
    rng_m = ctx.rng('markers')
    for _ in range(ctx.budget(20, 200)):
        suites.run_resolve_case(ctx, 'marker-combo', marker_case(rng_m), oracle=marker_oracle)
        suites.run_resolve_case(ctx, 'marker-combo', ladder_case(rng_m), oracle=marker_oracle)
    ctx.feature('two-ring-markers-on-one-base-node')
    rng = ctx.rng('cut')
    for i in range(ctx.budget(400, 8000)):
        if ctx.out_of_time():
            break
        if i % 8 == 5:
            # an aromatic ring written in Kekule form, no lower-case atom in the whole description
            case = gen_mol.cut_case(rng, nmin=7, nmax=12, aromatic_p=1.0, kekule_p=1.0)
            if case.get('kekule'):
                ctx.feature('kekule-ring')
        elif i % 8 == 2:
            # aromatic rings cut in two or more places, the cut aromatic bonds written WITH their symbol ('c:[$a]')
            case = gen_mol.cut_case(rng, nmin=7, nmax=12, aromatic_p=1.0, arom_sym_p=0.7)
            if ':[' in case['s'] or ']:' in case['s']:
                ctx.feature('aromatic-cut-with-symbol')
        else:
            case = gen_mol.cut_case(rng, nmax=12 if ctx.tier == 'quick' else 24, anno_p=rng.choice([0, 0, 0, 0.2]),
                                    pyrrole_p=0.15 if i % 3 == 0 else 0.0)
        suites.run_resolve_case(ctx, 'mol-cut', case, oracle=oracle)
        ctx.feature('frags=%d' % case['nfrag'])
        if case.get('has_pyrrole'):
            ctx.feature('pyrrole-ring' + (':cut' if case.get('pyrrole_ring_cut') else ':whole'))


def corpus_case(ctx, payload):
    case = payload.get('case', {})
    if isinstance(case, dict) and 's' in case and case.get('kind') != 'compat':
        suites.run_resolve_case(ctx, 'corpus', case, oracle=marker_oracle if case.get('kind') == 'marker-combo' else oracle)


def replay(payload):
    import check
    case = payload['case']
    ctx = check.Ctx(PROP, 'quick', 0)
    if case.get('kind') == 'marker-combo':
        suites.run_resolve_case(ctx, 'replay', case, oracle=marker_oracle, compare=False)
    else:
        if 'mol' not in case:
            print('replay needs the full case (molecule); re-generate with the recorded seed')
        suites.run_resolve_case(ctx, 'replay', case, oracle=oracle, compare=False)
    for c, what, _ in ctx.failures:
        print('FAILS:', what)
    print('input:', case.get('s'))
    return 1 if ctx.failures else 0


def finding_still_fails(f):
    import json, os, check
    path = os.path.join(lib.VERIF, f.get('witness', ''))
    if not os.path.exists(path):
        return None
    with open(path) as fh:
        payload = json.load(fh)
    ctx = check.Ctx(PROP, 'quick', 0, oracle_only=True)
    suites.run_resolve_case(ctx, 'finding', payload['case'], oracle=oracle, compare=False)
    return bool(ctx.failures)
