"""
C06 — layered resolutions compose.
"""
import networkx as nx

import gen_levels
import gen_mol
import impl
import lib
import suites
from props.c01 import nm, em, em_ref
from props import c02, c03

PROP = 'C06'
LEAN_TARGETS = ['CGV.Props.C06', 'CGV.Props.C06Steps', 'CGV.Props.C06Trace']
RULE = ('fragmented molecules whose fragments are grouped hierarchically into 1-2 intermediate coarse levels (unique '
        'labels per level, intermediate descriptors carrying the number of bonds they stand for), atomistic and coarse '
        'last level; every step executed by implementation and Lean model (exact dumps, chained through the levels); '
        'oracle: final molecule isomorphic to the flattened two-level resolution and to the generator\'s molecule, '
        'each step\'s coarse graph is the previous fine graph, repeated resolve()/resolve_iter()/resolve_all() agree, '
        'C02/C03 oracles at every step; non-trivial = at least 3 levels')
ASSUMPTIONS = ['pysmiles.correct_aromatic_rings recorded; networkx G.edges order of an intermediate fine graph is '
               'handed to the model as observed']


def canon(g):
    return (sorted((n, d.get('atomname'), d.get('element')) for n, d in g.nodes(data=True)),
            sorted((min(a, b), max(a, b), d.get('order')) for a, b, d in g.edges(data=True)))


def oracle(ctx, case, steps, ctor_err):
    if case.get('kind') != 'hier':
        return
    if steps is None:
        ctx.fail(suites.slim(case), f'multi-level description rejected while reading: {ctor_err[1]}')
        return
    if steps[-1]['result'] != 'ok':
        ctx.fail(suites.slim(case), f'multi-level description rejected at level {steps[-1]["level"]}: {steps[-1]["result"]} '
                                    f'{steps[-1].get("message", "")[:70]}')
        return
    kw = {'last_all_atom': case.get('all_atom', True)}
    fine = steps[-1]['fine_graph']
    # (a) flattened two-level description and the molecule itself
    try:
        with lib.quiet():
            _, flat = impl.resolver_from_string(case['flat'], **kw).resolve()
    except Exception as err:     # noqa: BLE001
        ctx.fail(suites.slim(case), f'flattened description rejected: {lib.err_class(err)}')
        return
    node_match = nm if kw['last_all_atom'] else (lambda a, b: a.get('atomname') == b.get('atomname'))
    if not nx.is_isomorphic(fine, flat, node_match=node_match, edge_match=em):
        ctx.fail(suites.slim(case), 'level-by-level resolution differs from resolving the flattened two-level description')
    if kw['last_all_atom'] and 'mol' in case:
        ref = gen_mol.ref_from_case(case)
        if not nx.is_isomorphic(fine, ref, node_match=nm, edge_match=em_ref):
            ctx.fail(suites.slim(case), 'level-by-level resolution does not give the molecule')
    # (b) drivers
    try:
        with lib.quiet():
            r1 = impl.resolver_from_string(case['s'], **kw)
            it = [(canon(m), canon(f)) for m, f in r1.resolve_iter()]
            r2 = impl.resolver_from_string(case['s'], **kw)
            m2, f2 = r2.resolve_all()
            r3 = impl.resolver_from_string(case['s'], **kw)
            manual = []
            prev_fine = None
            for _ in range(r3.resolutions):
                m3, f3 = r3.resolve()
                if prev_fine is not None and m3 is not prev_fine:
                    ctx.fail(suites.slim(case), 'a step\'s coarse graph is not the previous step\'s fine graph')
                prev_fine = f3
                manual.append((canon(m3), canon(f3)))
    except Exception as err:     # noqa: BLE001
        ctx.fail(suites.slim(case), f'a driver raised {type(err).__name__} although stepping succeeded')
        return
    if it[-1][1] != canon(f2) or it[-1][1] != manual[-1][1] or it[-1][1] != canon(fine):
        ctx.fail(suites.slim(case), 'resolve_iter / resolve_all / repeated resolve disagree on the final molecule')
    for i in range(1, len(it)):
        if it[i][0][0] != it[i - 1][1][0]:
            ctx.fail(suites.slim(case), f'coarse graph of step {i} is not the fine graph of step {i - 1}')
    # (c) mapping and bonding guarantees at every step
    c02.oracle(ctx, case, steps, None)
    c03.oracle(ctx, case, steps, None)


def run(ctx):
    rng = ctx.rng('hier')
    for i in range(ctx.budget(300, 6000)):
        if ctx.out_of_time():
            break
        if i % 10 == 3:
            case = gen_levels.digit_case(rng)
            suites.run_resolve_case(ctx, 'mol-hier-digit', case, oracle=oracle)
            ctx.feature('pairs-told-apart-by-order-digit')
            continue
        if i % 10 == 7:
            # the expansion operator inside a middle-level fragment definition
            case = gen_levels.mult_case(rng)
            suites.run_resolve_case(ctx, 'mol-hier-mult', case, oracle=oracle)
            ctx.feature('expansion-in-fragment')
            continue
        case = gen_levels.hier_case(rng, share_p=rng.choice([0, 0, 0.4]), virtual_p=rng.choice([0, 0, 0.5]))
        if i % 4 == 3:
            # coarse last level: drop the atomistic block
            case['all_atom'] = False
            case['s'] = case['s'].rsplit('.{', 1)[0]
            case['flat'] = None
            case['kind'] = 'hier-cg'
        suites.run_resolve_case(ctx, 'mol-hier', case, oracle=oracle)
        ctx.feature('levels=%d' % case['levels'])


def corpus_case(ctx, payload):
    case = payload.get('case', {})
    if isinstance(case, dict) and 's' in case and case.get('kind') != 'compat':
        suites.run_resolve_case(ctx, 'corpus', case, oracle=oracle)


def replay(payload):
    import check
    ctx = check.Ctx(PROP, 'quick', 0)
    suites.run_resolve_case(ctx, 'replay', payload['case'], oracle=oracle, compare=False)
    for c, what, _ in ctx.failures:
        print('FAILS:', what)
    print('input:', payload['case'].get('s'))
    return 1 if ctx.failures else 0


def finding_still_fails(f):
    return False
