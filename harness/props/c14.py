"""
C14 — annotations mean the same however written and reach the graphs unchanged.
"""
import itertools

import gen_graph
import gen_mol
import impl
import lib
import suites

PROP = 'C14'
LEAN_TARGETS = ['CGV.Props.C14']
RULE = ('annotation strings for both dialects: all subsets/orders of reserved and free keys, positional/keyword '
        'mixtures, numeric spellings (+1, -0.25, 1e-1, .5, 5.), duplicates, empties, malformed entries; parsed by '
        'implementation and Lean model (values compared exactly as rationals -> floats, error classes compared); '
        'metamorphic oracle: positional <-> keyword, keyword permutations, defaults; propagation oracle on resolved '
        'descriptions (base-node annotations on the coarse graph, atom annotations on every copy); non-trivial = at '
        'least one entry')
ASSUMPTIONS = ['inspect.Signature.bind for the two generated signatures and float() on the decimal grammar are modelled '
               'external; coarse-fragment annotations go through the atomistic dialect (finding S3)']

RESERVED_BASE = [('q', 'charge', 0.0), ('w', 'weight', 1.0)]


def expected_base(name, entries):
    """attributes the documentation promises for `[#name;entries…]` — None when the entries are not of the
    plain documented forms"""
    out = {'fragname': name, 'charge': 0.0, 'weight': 1.0}
    pos = []
    seen = set()
    for e in entries:
        if e.count('=') == 0:
            pos.append(e)
        elif e.count('=') == 1:
            k, v = e.split('=')
            if k in seen or k in ('fragname', 'charge', 'weight', 'kwargs', ''):
                return None
            seen.add(k)
            if k in ('q', 'w'):
                try:
                    out['charge' if k == 'q' else 'weight'] = float(v)
                except ValueError:
                    return None
            else:
                out[k] = v
        else:
            return None
    if len(pos) > 2:
        return None
    for (k, long, _), v in zip(RESERVED_BASE, pos):
        if k in seen:
            return None
        try:
            out[long] = float(v)
        except ValueError:
            return None
    return out


def parse(dialect, s):
    from cgsmiles.dialects import parse_graph_base_node, _fragment_node_parser
    f = parse_graph_base_node if dialect == 'base' else _fragment_node_parser
    try:
        with lib.quiet():
            return ('ok', f(s))
    except Exception as err:   # noqa: BLE001
        return ('err', lib.err_class(err))


def compare(ctx, dialect, s):
    got = parse(dialect, s)
    ctx.count('anno', lib.stable_hash([dialect, got[0], sorted(got[1]) if got[0] == 'ok' else got[1], s.count(';'), s.count('=')]),
              nontrivial=bool(s), sample=[dialect, s])
    ctx.feature(f'anno:{got[0] if got[0] == "ok" else got[1]}')
    if dialect == 'base' and s and got[0] == 'ok':
        # the documented meaning of the plain forms: reserved keys q / w (exactly these spellings), everything else verbatim
        parts = s.split(';')
        exp = expected_base(parts[0], parts[1:]) if parts[0].isalnum() else None
        if exp is not None and dict(got[1]) != exp:
            ctx.fail({'kind': 'anno-base', 's': s}, f'[#{s}] gives {dict(got[1])}, documented {exp}')
    if ctx.oracle_only:
        return got
    rep = ctx.model({'op': 'anno', 'dialect': dialect, 's': s})
    if rep.get('err') == 'unsupported':
        ctx.skip_unsupported()
        return got
    if got[0] == 'ok':
        if 'ok' not in rep:
            ctx.disagree('anno', [dialect, s], f'implementation parses {got[1]}, model raises {rep.get("err")}')
        else:
            a = sorted([k, suites.canon_attr_val(v)] for k, v in got[1].items())
            b = sorted([k, suites.model_attr_val(v)] for k, v in rep['ok'])
            if a != b:
                ctx.disagree('anno', [dialect, s], f'implementation {a} model {b}')
    elif 'ok' in rep or rep.get('err') != got[1]:
        ctx.disagree('anno', [dialect, s], f'implementation raises {got[1]}, model {rep}')
    return got


def metamorphic(ctx, rng):
    """positional <-> keyword, keyword order, defaults — on the real parsers"""
    nums = ['1', '+1', '-0.25', '1e-1', '.5', '5.', '0', '2']
    for dialect, params in (('base', ['q', 'w']), ('frag', ['w', 'x'])):
        k = rng.randint(0, len(params))
        vals = [rng.choice(nums) if p != 'x' else rng.choice(['R', 'S']) for p in params[:k]]
        free = [(f, rng.choice(['a', '7', 'x y'])) for f in rng.sample(['mass', 'k', 'lab'], rng.randint(0, 2))]
        name = 'A' if dialect == 'base' else None
        head = [name] if name else []
        positional = ';'.join(head + vals + [f'{a}={b}' for a, b in free])
        kw = [f'{p}={v}' for p, v in zip(params, vals)] + [f'{a}={b}' for a, b in free]
        rng.shuffle(kw)
        keyword = ';'.join(head + kw)
        r1, r2 = parse(dialect, positional), parse(dialect, keyword)
        ctx.count('anno-meta', lib.stable_hash([dialect, k, len(free), r1[0]]), sample=[positional, keyword])
        if r1 != r2:
            ctx.fail({'kind': 'anno', 'dialect': dialect, 'a': positional, 'b': keyword},
                     f'{positional!r} -> {r1[1]} but {keyword!r} -> {r2[1]}')
            continue
        if r1[0] != 'ok':
            ctx.fail({'kind': 'anno', 'dialect': dialect, 'a': positional, 'b': keyword}, f'valid annotation rejected: {r1[1]}')
            continue
        d = r1[1]
        longs = {'q': 'charge', 'w': 'weight', 'x': 'chiral'}
        defaults = {'charge': 0.0, 'weight': 1.0}
        for i, p in enumerate(params):
            long = longs[p]
            if i < k:
                want = float(vals[i]) if p != 'x' else vals[i]
                if d.get(long) != want or (p != 'x' and not isinstance(d.get(long), float)):
                    ctx.fail({'kind': 'anno', 'dialect': dialect, 'a': positional, 'b': keyword},
                             f'{long} is {d.get(long)!r}, written {vals[i]!r}')
            elif long in defaults:
                if d.get(long) != defaults[long]:
                    ctx.fail({'kind': 'anno', 'dialect': dialect, 'a': positional, 'b': keyword},
                             f'omitted {long} is {d.get(long)!r}, documented default {defaults[long]}')
            elif long in d:
                ctx.fail({'kind': 'anno', 'dialect': dialect, 'a': positional, 'b': keyword}, f'omitted {long} present: {d[long]!r}')
        for a, b in free:
            if d.get(a) != b:
                ctx.fail({'kind': 'anno', 'dialect': dialect, 'a': positional, 'b': keyword}, f'free key {a} is {d.get(a)!r}, written {b!r}')


def propagate_oracle(ctx, case, steps, ctor_err):
    if steps is None or case.get('kind') != 'anno-resolve':
        return
    st = steps[0]
    if st['result'] != 'ok':
        ctx.fail(suites.slim(case), f'annotated description rejected: {st["result"]} {st.get("message", "")[:60]}')
        return
    fine, meta = st['fine_graph'], st['meta_graph']

    def check_coarse(meta, how):
        if case.get('expanded'):
            # a multiplied anchor+branch is numbered differently from the written-out string: compare as multisets
            def key(dct):
                return tuple(sorted((a, repr(v)) for a, v in dct.items() if a != 'graph'))
            want = sorted(key(e) for e in case['base_expect'])
            have = sorted(key({a: v for a, v in meta.nodes[k].items() if a != 'graph'}) for k in meta.nodes)
            if want != have:
                import collections
                miss = list((collections.Counter(want) - collections.Counter(have)).elements())[:2]
                ctx.fail(suites.slim(case), f'{how}: the annotated coarse nodes are not the written ones (expansion written out): '
                                            f'missing {miss}')
            return
        if len(meta) != len(case['base_expect']):
            ctx.fail(suites.slim(case), f'{how}: {len(meta)} coarse nodes, {len(case["base_expect"])} written')
            return
        for k, exp in enumerate(case['base_expect']):
            have = {a: v for a, v in meta.nodes[k].items() if a != 'graph'}
            for a, v in exp.items():
                if have.get(a) != v:
                    ctx.fail(suites.slim(case), f'{how}: coarse node {k}: {a}={have.get(a)!r}, written {v!r}')
    check_coarse(meta, 'whole string')
    # the same base graph handed over as a graph (second constructor): the annotations stay on the returned nodes
    try:
        from cgsmiles.read_cgsmiles import read_cgsmiles
        from cgsmiles.resolve import MoleculeResolver
        base_str, rest = case['s'].split('}.', 1)
        with lib.quiet():
            meta2, _ = MoleculeResolver.from_graph(rest, read_cgsmiles(base_str + '}'),
                                                   last_all_atom=case.get('all_atom', True)).resolve()
        check_coarse(meta2, 'base graph + fragment string')
    except Exception as err:    # noqa: BLE001
        ctx.fail(suites.slim(case), f'base graph + fragment string constructor rejected the annotated description: {lib.err_class(err)}')
    # every annotated template atom has a copy in every instance of its fragment
    seen = set()
    for n, d in fine.nodes(data=True):
        for fname, tk in d.get('mapping', []):
            for k in d.get('fragid', []):
                seen.add((k, fname, str(tk)))
    for k in meta.nodes:
        fname = meta.nodes[k].get('fragname')
        for tk in case['atom_expect'].get(fname, {}):
            if (k, fname, tk) not in seen:
                ctx.fail(suites.slim(case), f'coarse node {k}: no atom of the result is the copy of annotated template atom {fname}:{tk} '
                                            f'({case["atom_expect"][fname][tk]})')
    for n, d in fine.nodes(data=True):
        for fname, tk in d.get('mapping', []):
            exp = case['atom_expect'].get(fname, {}).get(str(tk))
            if exp and len(d.get('mapping', [])) == 1:
                for a, v in exp.items():
                    if d.get(a) != v:
                        ctx.fail(suites.slim(case), f'atom {n} (copy of {fname}:{tk}): {a}={d.get(a)!r}, template says {v!r}',
                                 finding=classify(case))


def anno_resolve_case(rng):
    """a small polymer-like description with annotations on base nodes and on fragment atoms"""
    nunits = rng.randint(1, 4)
    base, base_expect = '', []
    expanded = False
    for i in range(nunits):
        q = rng.choice([None, '1', '-1', '0.5'])
        w = rng.choice([None, '2', '0.25'])
        free = rng.choice([None, ('lab', 'x%d' % i)])
        entries = []
        exp = {'fragname': 'U', 'charge': 0.0, 'weight': 1.0}
        if q is not None and rng.random() < 0.5:
            entries.append(q); exp['charge'] = float(q)
            if w is not None:
                entries.append(w); exp['weight'] = float(w)
        else:
            kws = []
            if q is not None:
                kws.append('q=' + q); exp['charge'] = float(q)
            if w is not None:
                kws.append('w=' + w); exp['weight'] = float(w)
            rng.shuffle(kws)
            entries += kws
        if free:
            entries.append('%s=%s' % free); exp[free[0]] = free[1]
        node = '[#%s]' % ';'.join(['U'] + entries)
        r = rng.random()
        if r < 0.12:
            k = rng.randint(2, 3)
            base += node + '|%d' % k                      # a multiplied node: every copy carries the annotation
            base_expect += [dict(exp) for _ in range(k)]
        elif r < 0.27 and i + 1 < nunits:
            # a multiplied anchor + branch: anchor and branch node are both annotated
            k = rng.randint(2, 3)
            inner = rng.choice(['[#U;q=0.25;lab=in%d]' % i, '[#U;w=3]', '[#U]'])
            iexp = {'fragname': 'U', 'charge': 0.0, 'weight': 1.0}
            if 'q=0.25' in inner:
                iexp.update(charge=0.25, lab='in%d' % i)
            if 'w=3' in inner:
                iexp.update(weight=3.0)
            base += node + '(' + inner + ')|%d' % k
            for _ in range(k):
                base_expect += [dict(exp), dict(iexp)]
            expanded = True
        else:
            base += node
            base_expect.append(exp)
    atom_expect = {}
    text = '[$]'
    idx = 0
    # also one-atom fragments, and a thioether on an aromatic ring ('Sc1…': S followed by an aromatic carbon)
    for j, el in enumerate(rng.choice([['C', 'O', 'C'], ['C', 'O', 'C'], ['O'], ['N'],
                                       ['C', 'S', 'c1', 'c', 'c', 'c', 'c', 'c1']])):
        suffix = ''
        if len(el) == 2 and el[1] == '1':
            el, suffix = el[0], '1'
        w = rng.choice([None, '0.5', '2', '0'])
        x = rng.choice([None, None, 'R', 'S']) if el == 'C' else None
        free = rng.choice([None, ('tag', 't%d' % j)])
        ent, exp = [], {'weight': 1}
        if w is not None:
            ent.append(w if rng.random() < 0.5 else 'w=' + w); exp['weight'] = float(w)
        if x is not None:
            ent.append('x=' + x); exp['chiral'] = x
        if free:
            ent.append('%s=%s' % free); exp[free[0]] = free[1]
        text += ('[%s]' % ';'.join([el] + ent) if ent else el) + suffix
        atom_expect[str(idx)] = exp
        idx += 1
        if el == 'C' and rng.random() < 0.35:
            # an explicitly written hydrogen with its own annotation (weight, free key, label in any mix)
            hent, hexp = [], {'weight': 1, 'element': 'H'}
            hw = rng.choice([None, None, '0.5', '0', '1.0'])
            if hw is not None:
                hent.append('w=' + hw); hexp['weight'] = float(hw)
            if rng.random() < 0.6 or not hent:
                hent.append('site=s%d' % j); hexp['site'] = 's%d' % j
            if rng.random() < 0.2:
                hent.append('x=R'); hexp['chiral'] = 'R'
            rng.shuffle(hent)
            text += '([H;%s])' % ';'.join(hent)
            atom_expect[str(idx)] = hexp
            idx += 1
    text += '[$]'
    return {'kind': 'anno-resolve', 's': '{' + base + '}.{#U=' + text + '}', 'base_expect': base_expect,
            'atom_expect': {'U': atom_expect}, 'all_atom': True, 'expanded': expanded}


def anno_cg_case(rng):
    """annotations on the nodes of a coarse fragment (documented reserved symbols of any coarse resolution: q, w)"""
    text = '[$]'
    atom_expect = {}
    uses_q_or_positional = False
    for j, name in enumerate(['X', 'Y']):
        q = rng.choice([None, None, '1', '-0.5'])
        w = rng.choice([None, '2', '0.25'])
        free = rng.choice([None, ('tag', 't%d' % j)])
        ent, exp = [], {'weight': 1.0, 'charge': 0.0, 'atomname': name}
        if q is not None and rng.random() < 0.4:
            ent.append(q); exp['charge'] = float(q)
            uses_q_or_positional = True
            if w is not None:
                ent.append(w); exp['weight'] = float(w)
        else:
            kws = []
            if q is not None:
                kws.append('q=' + q); exp['charge'] = float(q)
                uses_q_or_positional = True
            if w is not None:
                kws.append('w=' + w); exp['weight'] = float(w)
            rng.shuffle(kws)
            ent += kws
        if free:
            ent.append('%s=%s' % free); exp[free[0]] = free[1]
        text += '[#%s]' % ';'.join([name] + ent)
        atom_expect[str(j)] = exp
    text += '[$]'
    n = rng.randint(1, 3)
    return {'kind': 'anno-resolve', 's': '{' + '[#U]' * n + '}.{#U=' + text + '}', 'base_expect': [{'fragname': 'U'}] * n,
            'atom_expect': {'U': atom_expect}, 'all_atom': False, 'coarse_q': uses_q_or_positional}


def classify(case):
    """S3: a node of a coarse fragment that writes the charge (keyword q or positionally)"""
    return 'S3' if case.get('coarse_q') else None


def run(ctx):
    rng = ctx.rng('anno')
    for _ in range(ctx.budget(2000, 40000)):
        dialect = rng.choice(['base', 'frag'])
        s = gen_graph.anno_string(rng)
        if dialect == 'base' and rng.random() < 0.8:
            s = 'A' + (';' + s if s else '')
        compare(ctx, dialect, s)
    for _ in range(ctx.budget(400, 8000)):
        metamorphic(ctx, rng)
    for _ in range(ctx.budget(150, 3000)):
        suites.run_resolve_case(ctx, 'anno-resolve', anno_resolve_case(rng), oracle=propagate_oracle)
    for _ in range(ctx.budget(100, 2000)):
        case = anno_cg_case(rng)
        suites.run_resolve_case(ctx, 'anno-resolve-coarse', case, oracle=propagate_oracle)
        ctx.feature('coarse-fragment-annotation' + (':charge' if case['coarse_q'] else ''))


def corpus_case(ctx, payload):
    suites.run_resolve_case(ctx, 'corpus', payload['case'], oracle=propagate_oracle)


def replay(payload):
    case = payload['case']
    if case.get('kind') == 'anno':
        r1, r2 = parse(case['dialect'], case['a']), parse(case['dialect'], case['b'])
        print(case['a'], '->', r1); print(case['b'], '->', r2)
        return 1 if r1 != r2 else 0
    import check
    ctx = check.Ctx(PROP, 'quick', 0)
    suites.run_resolve_case(ctx, 'replay', case, oracle=propagate_oracle, compare=False)
    for c, what, _ in ctx.failures:
        print('FAILS:', what)
    print('input:', case.get('s'))
    return 1 if ctx.failures else 0


def finding_still_fails(f):
    import json, os, check
    path = os.path.join(lib.VERIF, f.get('witness', ''))
    if not os.path.exists(path):
        return None
    with open(path) as fh:
        payload = json.load(fh)
    ctx = check.Ctx(PROP, 'quick', 0, oracle_only=True)
    suites.run_resolve_case(ctx, 'finding', payload['case'], oracle=propagate_oracle, compare=False)
    return bool(ctx.failures)
