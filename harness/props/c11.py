"""
C11 — virtual nodes and zero-order edges are inert.
"""
import networkx as nx

import gen_mol
import impl
import lib
import suites

PROP = 'C11'
LEAN_TARGETS = ['CGV.Props.C11']
RULE = ('fragmented molecules and ambiguous descriptions, each resolved as written and with virtual nodes [#V] '
        '(first / middle / last position, several, attached by chain or branch zero-bonds) and zero-order edges between '
        'real nodes inserted; both variants executed by implementation and Lean model; oracle: identical fine molecule, '
        'every real coarse node mapped to the same atoms, virtual nodes mapped to nothing; fragment-less node with an '
        'order>=1 edge must raise SyntaxError; non-trivial = at least one virtual node or zero edge inserted')
ASSUMPTIONS = ['pysmiles.correct_aromatic_rings recorded']


def nm(a, b):
    return a.get('element') == b.get('element') and a.get('charge', 0) == b.get('charge', 0) and \
        a.get('atomname') == b.get('atomname')


def em(a, b):
    return a.get('order') == b.get('order')


def resolve(s, **kw):
    r = impl.resolver_from_string(s, **kw)
    with lib.quiet():
        return r.resolve()


def insert_virtual(rng, case):
    """variants of the base graph string with virtual nodes / zero edges; returns list of (string, kind)"""
    s = case['s']
    base, rest = s.split('}.', 1)
    body = base[1:]
    out = []
    out.append(('{[#V].' + body + '}.' + rest, 'first'))
    import re
    out.append(('{' + body + '.[#V]}.' + rest, 'last'))          # also directly after a multiplier: '|3.[#V]'
    out.append(('{[#V].' + body + '.[#W].[#V]}.' + rest, 'several'))
    # the zero bond written directly behind SEVERAL closing parentheses: the whole description hangs, zero-bonded, in a
    # nested branch of virtual nodes, and one more follows the closings
    out.append(('{[#W].([#V].(' + body + ')).[#V]}.' + rest, 'after-two-closings'))
    # after the first node: as a zero-bonded branch
    k = body.find(']')
    if k > 0:
        # keep ring markers / multipliers directly after the node in place
        j = k + 1
        while j < len(body) and (body[j].isdigit() or body[j] in '%' or
                                  (body[j] in '.-=#$' and j + 1 < len(body) and (body[j + 1].isdigit() or body[j + 1] == '%'))):
            j += 1
        if not (j < len(body) and body[j] == '|'):
            out.append(('{' + body[:j] + '.([#V])' + body[j:] + '}.' + rest, 'branch-middle'))
    # zero-order ring bonds between two real nodes that are not adjacent / a virtual node zero-bonded to two real nodes
    if '9' not in body and '8' not in body and '%' not in body and '|' not in body:
        try:
            from cgsmiles.read_cgsmiles import read_cgsmiles
            g = read_cgsmiles('{' + body + '}')
            occ = [m.end() for m in re.finditer(r'\[#[^\]]*\]', body)]
            if len(occ) == len(g) and len(g) >= 2:
                pairs = [(i, j) for i in range(len(g)) for j in range(i + 1, len(g))]
                rng.shuffle(pairs)
                done = 0
                for i, j in pairs:
                    if done >= 2:
                        break
                    if g.has_edge(i, j):
                        continue
                    b2 = body[:occ[i]] + '.9' + body[occ[i]:occ[j]] + '9' + body[occ[j]:]
                    out.append(('{' + b2 + '}.' + rest, 'zero-edge'))
                    done += 1
                inner = [(i, j) for i, j in pairs if j != len(g) - 1]
                if inner:
                    i, j = inner[0]
                    b2 = body[:occ[i]] + '.8' + body[occ[i]:occ[j]] + '.9' + body[occ[j]:] + '.[#V]89'
                    out.append(('{' + b2 + '}.' + rest, 'bridge'))
        except Exception:    # noqa: BLE001
            pass
    return out


def reused_base_graph(ctx, case, fine0, kw):
    """a base graph OBJECT that was resolved before with a library in which [#V] is a real fragment, handed to
    from_graph again with the library in which it is virtual: the virtual node owns no atoms, the molecule is the one
    without virtual nodes"""
    from cgsmiles.read_cgsmiles import read_cgsmiles
    from cgsmiles.resolve import MoleculeResolver
    if not case.get('all_atom', True):
        return
    base, rest = case['s'].split('}.', 1)
    where = int(lib.stable_hash([case['s'], 'reuse'])[:4], 16) % 3
    body = base[1:]
    if where == 2 and body.endswith(tuple('0123456789')) and '|' in body:
        where = 0
    base_v = ['{[#V].' + body + '}', '{' + body + '.[#V]}', '{[#V].' + body + '.[#V]}'][where]
    frags = '{' + rest.lstrip('{')
    vcase = dict(suites.slim(case), s=base_v + '.' + frags, variant='reused-base-graph', orig=case['s'])
    try:
        with lib.quiet():
            g = read_cgsmiles(base_v)
            MoleculeResolver.from_graph(frags[:-1] + ',#V=OC}', g, **kw).resolve()
            meta, fine = MoleculeResolver.from_graph(frags, g, **kw).resolve()
    except Exception as err:    # noqa: BLE001
        ctx.fail(vcase, f'a base graph resolved before (with [#V] a real fragment) is rejected when [#V] is virtual: '
                        f'{type(err).__name__} {str(err)[:60]}')
        return
    ctx.count('reused-base-graph', lib.stable_hash([vcase['s']]), sample=vcase['s'])
    if (sorted(fine0.edges) != sorted(fine.edges) or list(fine0.nodes(data='element')) != list(fine.nodes(data='element'))) and \
            not nx.is_isomorphic(fine0, fine, node_match=lambda a, b: a.get('element') == b.get('element') and
                                 a.get('atomname', '')[:1] == b.get('atomname', '')[:1]):
        ctx.fail(vcase, 'a base graph resolved before gives a different molecule the second time')
        return
    owned = []
    for k in meta.nodes:
        gk = meta.nodes[k].get('graph')
        if meta.nodes[k].get('fragname') == 'V':
            if gk is not None and len(gk):
                ctx.fail(vcase, f'virtual node {k} of a base graph resolved before is mapped to atoms {sorted(gk.nodes)[:6]}')
                return
        elif gk is not None:
            owned += list(gk.nodes)
    if sorted(owned) != sorted(fine.nodes) and not any(len(d.get('fragid', [])) > 1 for _, d in fine.nodes(data=True)):
        ctx.fail(vcase, 'coarse-node membership of a base graph resolved before is not a partition of the atoms')


def oracle(ctx, case, steps, ctor_err):
    if steps is None or case.get('variant'):
        return
    if len(steps) != 1 or steps[0]['result'] != 'ok':
        return
    rng = lib.rng_for(0, case['s'])
    fine0, meta0 = steps[0]['fine_graph'], steps[0]['meta_graph']
    kw = {'last_all_atom': case.get('all_atom', True), 'legacy': case.get('legacy', True)}
    real0 = [k for k in meta0.nodes]
    for s2, kind in insert_virtual(rng, case):
        vcase = dict(suites.slim(case), s=s2, variant=kind)
        st2 = suites.run_resolve_case(ctx, 'virtual-' + kind, vcase)
        if st2 is None:
            ctx.fail(vcase, f'description with virtual nodes ({kind}) rejected while reading')
            continue
        if st2[0]['result'] != 'ok':
            ctx.fail(vcase, f'description with virtual nodes ({kind}) rejected: {st2[0]["result"]}')
            continue
        fine1, meta1 = st2[0]['fine_graph'], st2[0]['meta_graph']
        if not nx.is_isomorphic(fine0, fine1, node_match=nm, edge_match=em):
            ctx.fail(vcase, f'fine molecule changes when virtual nodes are inserted ({kind})')
            continue
        # keys are canonical, so the fine graphs must even be identical
        if sorted(fine0.edges) != sorted(fine1.edges) or list(fine0.nodes(data='element')) != list(fine1.nodes(data='element')):
            ctx.fail(vcase, f'fine molecule renumbered when virtual nodes are inserted ({kind})')
            continue
        real1 = [k for k in meta1.nodes if meta1.nodes[k].get('fragname') not in ('V', 'W')]
        if len(real1) != len(real0):
            ctx.fail(vcase, f'{kind}: number of real coarse nodes changed')
            continue
        for k0, k1 in zip(real0, real1):
            a0 = sorted(meta0.nodes[k0]['graph'].nodes) if 'graph' in meta0.nodes[k0] else []
            a1 = sorted(meta1.nodes[k1]['graph'].nodes) if 'graph' in meta1.nodes[k1] else []
            if a0 != a1:
                ctx.fail(vcase, f'{kind}: coarse node {k1} is mapped to atoms {a1[:6]}…, without the virtual nodes '
                                f'(as node {k0}) to {a0[:6]}…')
                break
        for k in meta1.nodes:
            if meta1.nodes[k].get('fragname') in ('V', 'W'):
                g = meta1.nodes[k].get('graph')
                if g is not None and len(g):
                    ctx.fail(vcase, f'{kind}: virtual node {k} is mapped to atoms {sorted(g.nodes)[:6]}')
    reused_base_graph(ctx, case, fine0, kw)
    # a fragment-less node attached by an order >= 1 edge must be rejected
    base, rest = case['s'].split('}.', 1)
    import re
    if re.search(r'\|\d+$', base):
        return
    # ... wherever it stands: last (bonded backwards), first (bonded forwards only), first of a '.'-separated part
    for bad, where in ((base + '[#V]}.' + rest, 'last'), ('{[#V]' + base[1:] + '}.' + rest, 'first'),
                       (base + '.[#V][#W]}.' + rest[:-1] + ',#W=C}', 'first-of-a-part'),
                       ('{[#V].' + base[1:] + '[#V]}.' + rest, 'same-name-as-an-earlier-virtual-node')):
        try:
            resolve(bad, **kw)
            ctx.fail(dict(suites.slim(case), s=bad, variant='bad'), f'fragment-less node ({where}) with an order-1 edge was resolved without error')
        except SyntaxError:
            ctx.feature('rejected-nonvirtual:' + where)
        except Exception as err:    # noqa: BLE001
            ctx.fail(dict(suites.slim(case), s=bad, variant='bad'), f'fragment-less node ({where}) with an order-1 edge raised {type(err).__name__}, not SyntaxError')


def later_level_name_case(ctx, rng):
    """multi-level description whose base graph gets a virtual node carrying the NAME of a fragment that is defined
    only at a later level: at the first step it has no fragment, so it must stay inert — the final molecule and all
    intermediate graphs are those of the description without it"""
    import re
    import gen_levels
    case = gen_levels.hier_case(rng)
    blocks = re.findall(r"\{[^\}]+\}", case['s'])
    if len(blocks) < 3:
        return
    first_names = set(re.findall(r'(?:\{|,)#([^=,{}\]]+)=', blocks[1]))
    later = [n for b in blocks[2:] for n in re.findall(r'(?:\{|,)#([^=,{}\]]+)=', b) if n not in first_names]
    if not later:
        return
    name = rng.choice(later)
    body = blocks[0][1:-1]
    pos = rng.choice(['first', 'last'])
    base2 = '{[#%s].%s}' % (name, body) if pos == 'first' else '{%s.[#%s]}' % (body, name)
    if re.search(r'\|\d+$', body) and pos == 'last':
        return
    kw = {'last_all_atom': case.get('all_atom', True)}
    vcase = {'kind': 'hier-virtual', 's': base2 + '.' + '.'.join(blocks[1:]), 'all_atom': case.get('all_atom', True),
             'variant': 'later-level-name', 'virtual_name': name}
    try:
        with lib.quiet():
            _, ref = impl.resolver_from_string(case['s'], **kw).resolve_all()
    except Exception:    # noqa: BLE001
        ctx.count('hier-virtual', nontrivial=False)
        return
    steps = suites.run_resolve_case(ctx, 'hier-virtual', vcase)
    ctx.feature('virtual:later-level-name')
    if steps is None:
        ctx.fail(vcase, 'multi-level description with a virtual node named like a later-level fragment rejected while reading')
        return
    if steps[-1]['result'] != 'ok':
        ctx.fail(vcase, f'multi-level description with a virtual node named like a later-level fragment rejected at level '
                        f'{steps[-1]["level"]}: {steps[-1]["result"]}')
        return
    meta1 = steps[0]['meta_graph']
    for k in meta1.nodes:
        if meta1.nodes[k].get('fragname') == name and steps[0]['meta']['nodes'] and \
                not any(nm_ == name for nm_, _ in steps[0]['frags']):
            g = meta1.nodes[k].get('graph')
            if g is not None and len(g):
                ctx.fail(vcase, f'virtual node {k} ({name}) has no fragment at the first level but is mapped to fine nodes '
                                f'{sorted(g.nodes)[:6]}')
                return
    fine = steps[-1]['fine_graph']
    match = nm if vcase['all_atom'] else (lambda a, b: a.get('atomname') == b.get('atomname'))
    if fine.number_of_nodes() != ref.number_of_nodes() or not nx.is_isomorphic(fine, ref, node_match=match, edge_match=em):
        ctx.fail(vcase, f'the virtual node [#{name}] changes the molecule: {fine.number_of_nodes()} atoms / {fine.number_of_edges()} '
                        f'bonds, without it {ref.number_of_nodes()} / {ref.number_of_edges()}')


def zero_ring_in_fragment_case(ctx, rng):
    """a zero-order RING bond inside a coarse fragment definition (opened with '.', closed by a one- or two-digit marker,
    also as the very last characters of the fragment text): at the next level it must not become a bond — the molecule is
    the one of the same description without that ring bond"""
    n = rng.randint(3, 5)
    beads = ['B%d' % i for i in range(n)]
    i = rng.randrange(0, n - 2)
    j = rng.randrange(i + 2, n)
    mark = rng.choice(['1', '7', '%10', '%12'])
    tail = rng.choice(['', '', '[$q]']) if j == n - 1 else ''

    def frag(with_ring):
        t = ''
        for k, b in enumerate(beads):
            t += '[#%s]' % b
            if with_ring and k == i:
                t += '.' + mark
            if with_ring and k == j:
                t += mark
        return t + tail
    # every bead has a spare descriptor: a zero-order edge that turned into a real one would find partners
    atoms = ['[$]C[$]'] + ['[$]%s([$])[$]' % rng.choice(['C', 'CC', 'N']) for _ in range(n - 2)] + ['[$]C[$]']
    last = '{' + ','.join('#%s=%s' % (b, a) for b, a in zip(beads, atoms)) + '}'
    outer = '{[#P]}' if not tail else '{[#P][#E]}'
    mid = lambda r: '{#P=%s%s}' % (frag(r), ',#E=[$q][#B0]' if tail else '')
    s_ring = outer + '.' + mid(True) + '.' + last
    s_ref = outer + '.' + mid(False) + '.' + last
    case = {'kind': 'zero-ring-in-fragment', 's': s_ring, 'all_atom': True, 'variant': 'zero-ring', 'reference': s_ref}
    try:
        with lib.quiet():
            _, ref = impl.resolver_from_string(s_ref).resolve_all()
    except Exception:    # noqa: BLE001
        ctx.count('zero-ring-fragment', nontrivial=False)
        return
    steps = suites.run_resolve_case(ctx, 'zero-ring-fragment', case)
    ctx.feature('zero-ring-in-fragment:' + ('end-of-text' if (j == n - 1 and not tail) else 'inside'))
    if steps is None or steps[-1]['result'] != 'ok':
        ctx.fail(case, 'description with a zero-order ring bond inside a coarse fragment is rejected'
                       + ('' if steps is None else f' at level {steps[-1]["level"]}: {steps[-1]["result"]}'))
        return
    fine = steps[-1]['fine_graph']
    if fine.number_of_nodes() != ref.number_of_nodes() or fine.number_of_edges() != ref.number_of_edges() or \
            not nx.is_isomorphic(fine, ref, node_match=nm, edge_match=em):
        ctx.fail(case, f'the zero-order ring bond {beads[i]}…{beads[j]} of the fragment changes the molecule: '
                       f'{fine.number_of_nodes()} atoms / {fine.number_of_edges()} bonds, without it {ref.number_of_nodes()} / {ref.number_of_edges()}')


def run(ctx):
    rng3 = ctx.rng('zero-ring-fragment')
    for i in range(ctx.budget(40, 800)):
        zero_ring_in_fragment_case(ctx, rng3)
    rng = ctx.rng('resolve')
    rng2 = ctx.rng('hier-virtual')
    for i in range(ctx.budget(60, 1200)):
        if ctx.out_of_time():
            break
        later_level_name_case(ctx, rng2)
    for i in range(ctx.budget(150, 3000)):
        if ctx.out_of_time():
            break
        if i % 2 == 0:
            case = gen_mol.cut_case(rng, nmax=9)
        else:
            case = gen_mol.polymer_case(rng)
        suites.run_resolve_case(ctx, 'resolve', case, oracle=oracle)
    for i in range(ctx.budget(100, 2000)):
        case = gen_mol.cut_case(rng, nmax=9, virtual=rng.randint(1, 3))
        suites.run_resolve_case(ctx, 'mol-virtual', case, oracle=None)


def corpus_case(ctx, payload):
    case = payload.get('case', {})
    if isinstance(case, dict) and 's' in case and case.get('kind') != 'compat':
        suites.run_resolve_case(ctx, 'corpus', case, oracle=oracle)


def replay(payload):
    import check
    ctx = check.Ctx(PROP, 'quick', 0)
    case = dict(payload['case'])
    if case.get('variant') == 'bad':
        try:
            resolve(case['s'])
            print('FAILS: resolved without error'); return 1
        except SyntaxError:
            return 0
    if case.get('variant') == 'reused-base-graph':
        case['s'] = case.pop('orig')
    case.pop('variant', None)
    # strip the inserted virtual nodes again? no: replay stores the variant string; re-derive from the original if present
    suites.run_resolve_case(ctx, 'replay', case, oracle=oracle, compare=False)
    for c, what, _ in ctx.failures:
        print('FAILS:', what)
    print('input:', case.get('s'))
    return 1 if ctx.failures else 0


def finding_still_fails(f):
    return False
