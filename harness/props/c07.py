"""
C07 — writing a graph and reading it back is the identity.
"""
import itertools

import networkx as nx

import lib
import suites

PROP = 'C07'
LEAN_TARGETS = ['CGV.Props.C07', 'CGV.Props.C07Path', 'CGV.Props.C07Tree', 'CGV.Props.C07TreeGraph', 'CGV.Props.C07TreeRead', 'CGV.Props.C07Cycle']
RULE = ('connected graphs with node names and bond orders 0-4: random trees, rings, fused rings, dense graphs up to 14 '
        'nodes, random relabelings (non-contiguous keys); thorough: all connected graphs on <= 6 nodes (graph atlas) with '
        'orders from {1,2,0} on up to 3 marked edges; write_graph executed by implementation and Lean model (string '
        'equality, spanning tree and ring-edge order handed over as observed) and the written string read back by '
        'both; oracle: read(write(G)) isomorphic to G incl. names and orders; non-trivial = at least one ring or branch')
ASSUMPTIONS = ['contract D0: nx.dfs_successors(G, min G) is a spanning tree of the connected G (checked per case)',
               'CPython set iteration order of the ring edges is reproduced by the harness']


def rnd_graph(rng, nmax=10):
    n = rng.randint(1, nmax)
    kind = rng.choice(['tree', 'tree', 'ring', 'sparse', 'dense'])
    g = nx.Graph()
    g.add_node(0)
    for i in range(1, n):
        g.add_edge(i, rng.randrange(i))
    extra = {'tree': 0, 'ring': 1, 'sparse': rng.randint(1, 3), 'dense': rng.randint(3, 12)}[kind]
    cand = [(a, b) for a, b in itertools.combinations(range(n), 2) if not g.has_edge(a, b)]
    rng.shuffle(cand)
    for a, b in cand[:extra]:
        g.add_edge(a, b)
    # relabel: random permutation, sometimes non-contiguous keys
    keys = list(range(n)) if rng.random() < 0.5 else rng.sample(range(3 * n + 2), n)
    rng.shuffle(keys)
    mapping = dict(zip(range(n), keys))
    h = nx.Graph()
    order = list(range(n))
    rng.shuffle(order)
    for i in order:
        h.add_node(mapping[i], fragname=rng.choice(['A', 'B', 'C', 'PEO', 'X1']))
    es = list(g.edges)
    rng.shuffle(es)
    for a, b in es:
        if rng.random() < 0.5:
            a, b = b, a
        h.add_edge(mapping[a], mapping[b], order=rng.choice([1, 1, 1, 2, 0, 3, 4]))
    return h


def nm(a, b):
    return a.get('fragname') == b.get('fragname')


def em(a, b):
    return a.get('order') == b.get('order')


def check_graph(ctx, suite, g, tag):
    from cgsmiles.read_cgsmiles import read_cgsmiles
    case = {'kind': 'nxgraph', 'nodes': [[k, d['fragname']] for k, d in g.nodes(data=True)],
            'edges': [[a, b, d['order']] for a, b, d in g.edges(data=True)]}
    rings = g.number_of_edges() - g.number_of_nodes() + 1
    ctx.count(suite, lib.stable_hash([case['nodes'], case['edges']]),
              nontrivial=g.number_of_nodes() > 2, sample={'nodes': len(g), 'edges': g.number_of_edges(), 'rings': rings})
    ctx.feature('rings=%d' % min(rings, 10))
    # contract D0
    succ = nx.dfs_successors(g, source=min(g))
    reached = {min(g)} | {b for bs in succ.values() for b in bs}
    if reached != set(g.nodes) or sum(len(b) for b in succ.values()) != len(g) - 1:
        ctx.contract('D0', case, 'dfs_successors is not a spanning tree')
    got = suites.run_write_case(ctx, suite, g, case)
    if got[0] != 'ok':
        ctx.fail(case, f'writer raised {got[1]}', finding=classify(g, None))
        return
    s = '{' + got[1] + '}'
    case['written'] = s
    back = suites.run_read_case(ctx, suite + '-readback', s, case={'kind': 'graph', 's': s})
    if back[0] != 'ok':
        ctx.fail(case, f'written string {s} is rejected by the reader: {back[1]}', finding=classify(g, s))
        return
    if not nx.is_isomorphic(back[1], g, node_match=nm, edge_match=em):
        ctx.fail(case, f'written string {s} reads back to a different graph', finding=classify(g, s))


def classify(g, s):
    return None


def large_graphs(ctx):
    """sizes no random small graph reaches: chains and rings of more than a thousand nodes (depth of the spanning tree),
    more than a hundred ring bonds open at the same time (three-digit markers).  Implementation only: the sizes are
    outside what the model driver is asked to execute."""
    rng = ctx.rng('large')
    graphs = []
    n = 1500
    g = nx.path_graph(n)
    graphs.append(('chain-1500', g))
    graphs.append(('ring-1200', nx.cycle_graph(1200)))
    k = 104
    g = nx.path_graph(2 * k + 2)
    for i in range(k):
        g.add_edge(i, 2 * k + 1 - i) if not g.has_edge(i, 2 * k + 1 - i) else None
    graphs.append(('nested-rings-104', g))
    graphs.append(('complete-21', nx.complete_graph(21)))
    was = ctx.oracle_only
    ctx.oracle_only = True
    try:
        for tag, g0 in graphs:
            g = nx.Graph()
            for kx in g0.nodes:
                g.add_node(kx, fragname='AB'[kx % 2])
            for a, b in g0.edges:
                g.add_edge(a, b, order=1 if tag.startswith('complete') else rng.choice([1, 1, 1, 2, 0]))
            ctx.feature('large:' + tag)
            check_graph(ctx, 'large', g, tag)
    finally:
        ctx.oracle_only = was


def run(ctx):
    large_graphs(ctx)
    rng = ctx.rng('nxgraph')
    for _ in range(ctx.budget(700, 12000)):
        if ctx.out_of_time():
            break
        check_graph(ctx, 'nxgraph', rnd_graph(rng, 10 if ctx.tier == 'quick' else 14), 'random')
    if ctx.tier == 'thorough':
        from networkx.generators.atlas import graph_atlas_g
        n = 0
        for a in graph_atlas_g():
            if 1 <= len(a) <= 6 and nx.is_connected(a):
                es = list(a.edges)
                for marked in itertools.chain([()], itertools.combinations(range(len(es)), 1),
                                              itertools.combinations(range(len(es)), 2) if len(es) <= 8 else []):
                    for orders in itertools.product([2, 0], repeat=len(marked)):
                        g = nx.Graph()
                        for k in a.nodes:
                            g.add_node(k, fragname='AB'[k % 2])
                        for i, (u, v) in enumerate(es):
                            g.add_edge(u, v, order=dict(zip(marked, orders)).get(i, 1))
                        check_graph(ctx, 'atlas', g, 'atlas')
                        n += 1
        ctx.feature('atlas-graphs', n)


def graph_from_case(case):
    g = nx.Graph()
    for k, name in case['nodes']:
        g.add_node(k, fragname=name)
    for a, b, o in case['edges']:
        g.add_edge(a, b, order=o)
    return g


def corpus_case(ctx, payload):
    check_graph(ctx, 'corpus', graph_from_case(payload['case']), 'corpus')


def replay(payload):
    import check
    ctx = check.Ctx(PROP, 'quick', 0, oracle_only=True)
    check_graph(ctx, 'replay', graph_from_case(payload['case']), 'replay')
    for c, what, fid in ctx.failures:
        print('FAILS:', what, f'[{fid}]' if fid else '')
    return 1 if ctx.failures else 0


def finding_still_fails(f):
    import json, os, check
    path = os.path.join(lib.VERIF, f.get('witness', ''))
    if not os.path.exists(path):
        return None
    with open(path) as fh:
        payload = json.load(fh)
    ctx = check.Ctx(PROP, 'quick', 0, oracle_only=True)
    check_graph(ctx, 'finding', graph_from_case(payload['case']), 'finding')
    return bool(ctx.failures)
