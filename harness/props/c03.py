"""
C03 — inter-fragment bonds follow the base graph and the bonding-descriptor rules.
"""
import collections
import networkx as nx

import gen_mol
import impl
import lib
import suites

PROP = 'C03'
LEAN_TARGETS = ['CGV.Props.C03', 'CGV.Props.C03Step']
RULE = ('suite compat: random descriptor pairs (kinds $ ! < > and stray characters, labels, orders, empty) through '
        'resolve.compatible vs the translated+proved Lean function; suite resolve: random base-graph strings x '
        'fragment sets with unlabelled/surplus/duplicate descriptors (both conventions) and fragmented molecules with '
        'unique labels, each resolution step executed by the implementation and by the Lean model (exact graph dump); '
        'a case is non-trivial when at least one bond or an error arises; distinct by structural fingerprint')
ASSUMPTIONS = ['pysmiles.correct_aromatic_rings enters the model as its recorded answer (contract A2)',
               'the base graph is handed to the model in networkx iteration order']


def spec_compatible(left, right, legacy):
    """the compatibility rule as the property states it (independent of the implementation)"""
    lk, rk = left[0], right[0]
    if legacy:
        if lk in '$!' and rk == lk:
            return left == right
        if (lk, rk) in (('<', '>'), ('>', '<')):
            return left[1:] == right[1:]
        return False
    return (lk == rk and lk in '$!') or (lk, rk) in (('<', '>'), ('>', '<'))


def carried(st, fine, n, desc):
    """how often the template atom(s) node n is a copy of carry the descriptor"""
    have = 0
    for fname, tk in fine.nodes[n].get('mapping', []):
        t = next((g for nm, g in st['frags'] if nm == fname), None)
        if t:
            for x in t['n']:
                if x['k'] == tk:
                    have += x['bd'].count(desc)
    return have


def levels_oracle(ctx, case, steps, ctor_err):
    if steps is None:
        return
    suites.level_definitions_oracle(ctx, case, steps)
    oracle(ctx, case, steps, ctor_err)


def oracle(ctx, case, steps, ctor_err):
    if steps is None:
        return
    for st in steps:
        if st['result'] != 'ok' or 'meta' not in st:
            continue
        fine = st['fine_graph']
        legacy = st['legacy']
        meta_edges = {}
        for a, b, o in st['meta']['edges']:
            meta_edges[frozenset((a, b))] = meta_edges.get(frozenset((a, b)), 0) + o
        templates = {name: g for name, g in st['frags']}
        per_pair = collections.Counter()
        used = collections.Counter()
        for a, b, d in fine.edges(data=True):
            bd = d.get('bonding')
            fa, fb = fine.nodes[a].get('fragid', []), fine.nodes[b].get('fragid', [])
            if bd is None:
                if not set(fa) & set(fb) and fine.nodes[a].get('element') != 'H' and fine.nodes[b].get('element') != 'H':
                    ctx.fail(suites.slim(case), f'level {st["level"]}: bond {a}-{b} between different coarse nodes '
                                                f'{fa} / {fb} without a descriptor pair')
                continue
            if bd[0][0] == '!':
                continue
            # the coarse nodes the two atoms stem from, via the bond's own descriptors
            pairs = [(x, y) for x in fa for y in fb if frozenset((x, y)) in meta_edges and x != y]
            if not pairs:
                ctx.fail(suites.slim(case), f'level {st["level"]}: bond {a}-{b} ({bd}) joins coarse nodes {fa} / {fb} '
                                            'that are not adjacent in the base graph')
                continue
            if len(fa) == 1 and len(fb) == 1:
                per_pair[frozenset((fa[0], fb[0]))] += 1
            if not spec_compatible(bd[0], bd[1], legacy):
                ctx.fail(suites.slim(case), f'level {st["level"]}: bond {a}-{b} made from incompatible descriptors {bd}')
            try:
                digit = int(bd[0][-1])
            except ValueError:
                digit = None
            aro = fine.nodes[a].get('aromatic', False) and fine.nodes[b].get('aromatic', False)
            tmpl_aro = []
            for n in (a, b):
                for fname, tk in fine.nodes[n].get('mapping', []):
                    t = next((g for nm, g in st['frags'] if nm == fname), None)
                    if t:
                        tmpl_aro.append(any(x['k'] == tk and x['ar'] for x in t['n']))
            if digit is not None and not any(tmpl_aro) and d.get('order') != digit and not (aro and d.get('order') == 1.5):
                ctx.fail(suites.slim(case), f'level {st["level"]}: bond {a}-{b} has order {d.get("order")} but its '
                                            f'descriptor {bd[0]} is annotated {digit}')
            # the pair is stored in the orientation in which the bond was made; merging shared atoms can
            # turn the edge round afterwards, so the pair is read in the orientation the atoms support
            if carried(st, fine, a, bd[0]) and carried(st, fine, b, bd[1]) or not (carried(st, fine, a, bd[1]) and carried(st, fine, b, bd[0])):
                used[(a, bd[0])] += 1
                used[(b, bd[1])] += 1
            else:
                used[(a, bd[1])] += 1
                used[(b, bd[0])] += 1
        for pair, n in per_pair.items():
            if n > meta_edges.get(pair, 0):
                ctx.fail(suites.slim(case), f'level {st["level"]}: {n} bonds between coarse nodes {sorted(pair)} but '
                                            f'the base-graph edge has order {meta_edges.get(pair, 0)}')
        # no descriptor used twice: per atom, bonds use at most what the template atom(s) carried
        for (n, desc), cnt in used.items():
            have = carried(st, fine, n, desc)
            if cnt > have:
                ctx.fail(suites.slim(case), f'level {st["level"]}: descriptor {desc} on atom {n} used for {cnt} bonds, '
                                            f'written {have} times')


def dedicated_case(rng):
    """a chain / ring of units in which every base-graph edge has its dedicated descriptor pair(s) per unit of
    order; labels are arbitrary, so under the label-insensitive convention (legacy=False) every pair still
    matches, under the label-sensitive one only equal labels do"""
    n = rng.randint(2, 5)
    legacy = rng.random() < 0.4
    all_atom = rng.random() < 0.6
    ring = n >= 3 and rng.random() < 0.3
    kind = rng.choice(['$', '><'])
    labels = ['', 'A', 'B', 'x1']
    orders = [rng.choice([1, 1, 2]) for _ in range(n if ring else n - 1)]
    if all_atom:
        orders = [1] * len(orders)
    # descriptors per atom (three atoms per unit): the units of one edge sit on different atom pairs
    on = [[[], [], []] for _ in range(n)]
    expected = 0
    uniq = 0
    for e, o in enumerate(orders):
        a, b = e, (e + 1) % n
        for u in range(o):
            uniq += 1
            la = 'L%d' % uniq if legacy else rng.choice(labels)
            lb = la if legacy else rng.choice(labels)
            pa, pb = (2, 0) if u == 0 else (1, 1)
            if kind == '$':
                on[a][pa].append('[$%s]' % la)
                on[b][pb].append('[$%s]' % lb)
            else:
                on[a][pa].append('[>%s]' % la)
                on[b][pb].append('[<%s]' % lb)
            expected += 1
    frags = []
    for i in range(n):
        if all_atom:
            body = ['C', rng.choice(['C', 'C', 'N']), 'C']
        else:
            body = ['[#X%d]' % j for j in range(3)]
        for j in range(3):
            rng.shuffle(on[i][j])
        text = ''.join(body[j] + ''.join(on[i][j]) for j in range(3))
        frags.append('#U%d=%s' % (i, text))
    sym = {1: '', 2: '=', 3: '#'}
    base = ''
    for i in range(n):
        base += '[#U%d]' % i
        if ring and i == 0:
            base += sym[orders[-1]] + '1'
        if i < n - 1:
            base += sym[orders[i]]
    if ring:
        base += '1'
    return {'kind': 'dedicated', 's': '{' + base + '}.{' + ','.join(frags) + '}', 'all_atom': all_atom, 'legacy': legacy,
            'expected_bonds': expected, 'edges': [[e, (e + 1) % n, o] for e, o in enumerate(orders)]}


def scarce_case(rng):
    """a star / chain of all-atom units in which some unit has FEWER descriptors than coarse neighbours — among them
    units that are a single explicit hydrogen carrying one descriptor ('[$][H]', '[>]H' is not SMILES): whatever is
    matched, no written descriptor may serve two bonds"""
    n = rng.randint(3, 5)
    legacy = rng.random() < 0.6
    star = rng.random() < 0.5
    edges = [(0, i) for i in range(1, n)] if star else [(i, i + 1) for i in range(n - 1)]
    centre = 0 if star else rng.randrange(1, n - 1)
    deg = {i: sum(1 for e in edges if i in e) for i in range(n)}
    frags = []
    for i in range(n):
        if i == centre:
            kind = rng.choice(['H', 'H', 'C1'])
            if kind == 'H':
                text = rng.choice(['[$][H]', '[H][$]'])
            else:
                text = 'C[$]'                      # one descriptor, several neighbours
        else:
            text = rng.choice(['[$]C', 'C[$]', '[$]CC', 'N[$]', '[$]O']) if deg[i] == 1 or rng.random() < 0.5 else 'C([$])[$]'
        frags.append('#U%d=%s' % (i, text))
    if star:
        base = '[#U0]' + ''.join('([#U%d])' % i for i in range(1, n - 1)) + '[#U%d]' % (n - 1)
    else:
        base = ''.join('[#U%d]' % i for i in range(n))
    return {'kind': 'scarce', 's': '{' + base + '}.{' + ','.join(frags) + '}', 'all_atom': True, 'legacy': legacy,
            'centre': centre}


def dedicated_oracle(ctx, case, steps, ctor_err):
    oracle(ctx, case, steps, ctor_err)
    if steps is None:
        ctx.fail(suites.slim(case), f'description with dedicated descriptor pairs rejected: {ctor_err[1]}')
        return
    st = steps[-1]
    if st['result'] != 'ok':
        ctx.fail(suites.slim(case), f'description with dedicated descriptor pairs rejected: {st["result"]}')
        return
    fine = st['fine_graph']
    per = collections.Counter()
    for a, b, d in fine.edges(data=True):
        fa, fb = fine.nodes[a].get('fragid', []), fine.nodes[b].get('fragid', [])
        if fa and fb and fa[0] != fb[0] and fine.nodes[a].get('element') != 'H' and fine.nodes[b].get('element') != 'H':
            per[frozenset((fa[0], fb[0]))] += 1
    for a, b, o in case['edges']:
        if per.get(frozenset((a, b)), 0) != o:
            ctx.fail(suites.slim(case), f'{per.get(frozenset((a, b)), 0)} bonds between coarse nodes {a} and {b}; the edge has order {o} and a '
                                        f'dedicated compatible descriptor pair per unit (legacy={case["legacy"]})')
            return


def written_oracle(ctx, case, steps, ctor_err):
    """with unique labels every bond is forced: the bonds must join exactly the atoms the descriptors were
    WRITTEN on (the templates come from the reader, so a descriptor the reader puts on the wrong atom is
    invisible to the template-based accounting above) — i.e. the molecule that was cut comes back"""
    oracle(ctx, case, steps, ctor_err)
    if steps is None or steps[-1]['result'] != 'ok':
        return
    import gen_mol as gm
    from props.c01 import nm, em_ref
    fine = steps[-1]['fine_graph']
    ref = gm.ref_from_case(case)
    if not nx.is_isomorphic(fine, ref, node_match=nm, edge_match=em_ref):
        ctx.fail(suites.slim(case), 'bonds do not join the atoms on which the (uniquely labelled) descriptors were written: '
                                    'the resolved molecule is not the molecule that was cut')


def compat_suite(ctx):
    from cgsmiles.resolve import compatible
    rng = ctx.rng('compat')
    kinds = ['$', '!', '<', '>', ' ', 'x', '']
    labels = ['', '', 'A', 'B', 'AB', '1']
    for _ in range(ctx.budget(600, 6000)):
        def desc():
            k = rng.choice(kinds)
            if k == '' and rng.random() < 0.5:
                return ''
            return k + rng.choice(labels) + rng.choice(['1', '1', '2', '0', ''])
        left, r0 = desc(), desc()
        right = left if rng.random() < 0.3 else r0
        if rng.random() < 0.3 and left:
            right = {'<': '>', '>': '<'}.get(left[0], left[0]) + left[1:]
        legacy = rng.random() < 0.5
        try:
            got = ('ok', bool(compatible(left, right, legacy=legacy)))
        except Exception as err:   # noqa: BLE001
            got = ('err', lib.err_class(err))
        ctx.count('compat', (left[:1], right[:1], left[1:] == right[1:], legacy), sample=[left, right, legacy])
        if ctx.oracle_only:
            continue
        rep = ctx.model({'op': 'compat', 'l': left, 'r': right, 'legacy': legacy})
        mod = ('ok', rep['ok']) if 'ok' in rep else ('err', rep.get('err'))
        if got != mod:
            ctx.disagree('compat', [left, right, legacy], f'implementation {got}, translated model {mod}')
        elif 'ok' in rep and left and right and rep['ok'] != rep['spec']:
            ctx.disagree('compat', [left, right, legacy], 'translated function and hand-written compat differ')
        if got[0] == 'ok' and left and right and left[0] in '$!<>' and right[0] in '$!<>':
            if got[1] != spec_compatible(left, right, legacy):
                ctx.fail({'kind': 'compat', 'l': left, 'r': right, 'legacy': legacy},
                         f'compatible({left!r}, {right!r}, legacy={legacy}) = {got[1]}')


def run(ctx):
    compat_suite(ctx)
    rng = ctx.rng('resolve')
    n = ctx.budget(500, 8000)
    for i in range(n):
        if ctx.out_of_time():
            break
        if i % 3 == 0:
            lp = rng.choice([0.6, 1.0])
            case = gen_mol.cut_case(rng, label_p=lp)
            case['legacy'] = rng.random() < 0.7
            case['unique_labels'] = lp == 1.0
        elif i % 6 == 1:
            case = dedicated_case(rng)
        elif i % 6 == 2:
            case = scarce_case(rng)
            ctx.feature('scarce-descriptors')
        elif i % 6 == 4:
            # larger molecules (more atoms with several branches), every cut uniquely labelled: the bonds are forced,
            # so the molecule that was cut must come back (descriptors written behind sibling branches included)
            case = gen_mol.cut_case(rng, nmin=7, nmax=14, label_p=1.0, aromatic_p=0.5, thio_p=0.6)
            case['legacy'] = True
            case['unique_labels'] = True
        elif i % 12 == 5:
            # several fragment levels, names re-used from one level to the next, coarse or atomistic last level: at every
            # level the bonds are made with the descriptors of the definitions WRITTEN FOR THAT LEVEL
            import gen_levels
            case = gen_levels.hier_case(rng)
            if rng.random() < 0.5:
                case = dict(case, all_atom=False, s=case['s'].rsplit('.{', 1)[0], flat=None, kind='hier-cg')
            ctx.feature('multi-level')
            suites.run_resolve_case(ctx, 'resolve-levels', case, oracle=levels_oracle)
            continue
        else:
            case = gen_mol.ambiguous_case(rng)
        suites.run_resolve_case(ctx, 'resolve', case, oracle=dedicated_oracle if case.get('kind') == 'dedicated' else
                                (written_oracle if case.get('unique_labels') and case['legacy'] else oracle))


def corpus_case(ctx, payload):
    case = payload.get('case', {})
    if isinstance(case, dict) and 's' in case and case.get('kind') != 'compat':
        suites.run_resolve_case(ctx, 'corpus', case, oracle=oracle)


def replay(payload):
    case = payload['case']
    ctx = __import__('check').Ctx(PROP, 'quick', 0)
    if case.get('kind') == 'compat':
        from cgsmiles.resolve import compatible
        got = compatible(case['l'], case['r'], legacy=case['legacy'])
        print('compatible ->', got, 'required', spec_compatible(case['l'], case['r'], case['legacy']))
        return 1 if got != spec_compatible(case['l'], case['r'], case['legacy']) else 0
    suites.run_resolve_case(ctx, 'replay', case, oracle=levels_oracle if str(case.get('kind', '')).startswith('hier') else oracle, compare=False)
    for c, what, _ in ctx.failures:
        print('FAILS:', what)
    print('input:', case.get('s'))
    return 1 if ctx.failures else 0


def finding_still_fails(f):
    return False
