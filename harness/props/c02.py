"""
C02 — the coarse-to-fine mapping is a faithful partition into fragment copies.
"""
import networkx as nx

import gen_mol
import gen_levels
import lib
import suites

PROP = 'C02'
LEAN_TARGETS = ['CGV.Props.C02', 'CGV.Props.C02Step']
RULE = ('random base-graph strings x fragment dictionaries (atomistic and coarse, repeated names, internal rings, '
        'ambiguous descriptors), fragmented molecules, multi-level descriptions; every resolution step is executed by '
        'implementation and Lean model (exact dump of fine graph, membership, per-coarse-node node lists); oracle: '
        'fragid/graph cover relations and template-copy isomorphism per coarse node; non-trivial = at least one bond')
ASSUMPTIONS = ['pysmiles.correct_aromatic_rings recorded (may re-assign aromatic flags/orders inside rings)']


def oracle(ctx, case, steps, ctor_err):
    if steps is None:
        return
    # "the fragment defined under that node's name": at every level, the definitions written for that level
    suites.level_definitions_oracle(ctx, case, steps)
    for st in steps:
        if st['result'] != 'ok' or 'meta' not in st:
            continue
        fine, meta = st['fine_graph'], st['meta_graph']
        lvl = st['level']
        inst = {k for k, name in st['meta']['nodes'] if any(nm == name for nm, _ in st['frags'])}
        members = {}
        for n, d in fine.nodes(data=True):
            fid = d.get('fragid')
            if not fid:
                ctx.fail(suites.slim(case), f'level {lvl}: fine node {n} records no coarse node')
                continue
            for k in fid:
                if k not in inst:
                    ctx.fail(suites.slim(case), f'level {lvl}: fine node {n} records coarse node {k} which has no fragment')
                members.setdefault(k, []).append(n)
        for k in meta.nodes:
            g = meta.nodes[k].get('graph')
            have = sorted(g.nodes) if g is not None else []
            want = sorted(set(members.get(k, [])))       # a set: an atom merged twice into one coarse node records it twice
            if have != want:
                ctx.fail(suites.slim(case), f'level {lvl}: coarse node {k} carries fine nodes {have[:8]} but '
                                            f'{want[:8]} record it')
            elif g is not None:
                # what the coarse node carries is the fine graph restricted to its members: the same pairs are bonded
                # (annotate_fragments copies no bond attributes, so orders are not part of what is carried)
                ind = fine.subgraph(g.nodes)
                he = sorted((min(a, b), max(a, b)) for a, b in g.edges())
                we = sorted((min(a, b), max(a, b)) for a, b in ind.edges())
                if he != we:
                    miss = [e for e in we if e not in he][:4]
                    extra = [e for e in he if e not in we][:4]
                    ctx.fail(suites.slim(case), f'level {lvl}: the graph carried by coarse node {k} is not the fine graph '
                                                f'restricted to its members: bonds missing {miss}, surplus {extra}')
        # copy of the template
        tmpl = {nm: g for nm, g in st['frags']}
        names = dict((k, nm) for k, nm in st['meta']['nodes'])
        for k in inst:
            t = tmpl[names[k]]
            copy_nodes = {}
            for n in members.get(k, []):
                for fname, tk in fine.nodes[n].get('mapping', []):
                    if fname == names[k] and n not in copy_nodes.values():
                        # an atom shared with another instance of the same fragment name maps twice
                        if tk not in copy_nodes:
                            copy_nodes[tk] = n
            if len(fine.nodes) and any(len(set(fine.nodes[n].get('fragid', []))) > 1 for n in members.get(k, [])):
                continue     # atoms shared with ANOTHER coarse node: stated on `mapping` in C10
            if sorted(copy_nodes) != sorted(x['k'] for x in t['n']):
                ctx.fail(suites.slim(case), f'level {lvl}: coarse node {k} ({names[k]}): template atoms '
                                            f'{sorted(x["k"] for x in t["n"])} but copies of {sorted(copy_nodes)}')
                continue
            for x in t['n']:
                n = copy_nodes[x['k']]
                d = fine.nodes[n]
                if d.get('fragname') != names[k]:
                    ctx.fail(suites.slim(case), f'level {lvl}: node {n} reports fragment {d.get("fragname")!r}, expected {names[k]!r}')
                if x['el'] and d.get('element') != x['el']:
                    ctx.fail(suites.slim(case), f'level {lvl}: node {n} element {d.get("element")} != template {x["el"]}')
                if not st['all_atom'] and d.get('atomname') != x['an']:
                    ctx.fail(suites.slim(case), f'level {lvl}: node {n} name {d.get("atomname")} != template {x["an"]}')
                for key, val in x['x']:
                    if key in ('weight', 'chiral') or key not in ('w', 'ez_isomer_class', 'charge'):
                        if key in ('hcount',):
                            continue
                        if lib.canon_text(d.get(key)) != val and key not in ('w',):
                            ctx.fail(suites.slim(case), f'level {lvl}: node {n} annotation {key}={d.get(key)!r} != template {val}')
            aromatic_involved = any(x['ar'] for x in t['n'])
            for a, b, o2, _ in t['e']:
                if a == b:
                    continue
                na, nb = copy_nodes[a], copy_nodes[b]
                if not fine.has_edge(na, nb):
                    ctx.fail(suites.slim(case), f'level {lvl}: template bond {a}-{b} of {names[k]} missing between copies {na}-{nb}')
                elif not aromatic_involved and lib.order2(fine.edges[na, nb].get('order', 1)) != o2 and \
                        fine.edges[na, nb].get('order') != 1.5:
                    ctx.fail(suites.slim(case), f'level {lvl}: bond {na}-{nb} order {fine.edges[na, nb].get("order")} != template {o2 / 2}')
            inv = {v: kk for kk, v in copy_nodes.items()}
            for na in copy_nodes.values():
                for nb in fine[na]:
                    if nb in inv and na < nb:
                        ta, tb = inv[na], inv[nb]
                        if not any({ta, tb} == {e[0], e[1]} for e in t['e']) and not fine.edges[na, nb].get('bonding'):
                            ctx.fail(suites.slim(case), f'level {lvl}: bond {na}-{nb} inside coarse node {k} has no template bond')


def alias_case(rng):
    """two fragment names with the SAME definition text: the copies are equal, the names they report are not"""
    aa = rng.random() < 0.6
    text = rng.choice(['[$]CCCC[$]', '[$]COC[$]', '[>]CC(C)[<]', '[$]C(=O)N[$]']) if aa else \
        rng.choice(['[$][#a][#b][$]', '[>][#x]([#y])[<]', '[$][#m][$]'])
    names = ['P1', 'SP1'] if rng.random() < 0.5 else ['Q', 'R']
    n = rng.randint(2, 5)
    seq = [rng.choice(names) for _ in range(n)]
    seq[rng.randrange(n)] = names[0]
    seq[(seq.index(names[0]) + 1) % n] = names[1]
    defs = ['#%s=%s' % (nm_, text) for nm_ in (names if rng.random() < 0.5 else names[::-1])]
    return {'kind': 'alias', 's': '{' + ''.join('[#%s]' % x for x in seq) + '}.{' + ','.join(defs) + '}', 'all_atom': aa}


def run(ctx):
    rng_a = ctx.rng('alias')
    for _ in range(ctx.budget(40, 600)):
        suites.run_resolve_case(ctx, 'alias-names', alias_case(rng_a), oracle=oracle)
    ctx.feature('alias-names')
    rng = ctx.rng('resolve')
    n = ctx.budget(500, 8000)
    for i in range(n):
        if ctx.out_of_time():
            break
        r = i % 4
        if r == 0:
            case = gen_mol.cut_case(rng, virtual=rng.choice([0, 0, 1]), anno_p=rng.choice([0, 0, 0.3]))
        elif r == 1:
            case = gen_levels.hier_case(rng, share_p=rng.choice([0, 0.4]))
        else:
            case = gen_mol.ambiguous_case(rng)
        steps = suites.run_resolve_case(ctx, 'resolve', case, oracle=oracle)
        if r == 0 and i % 8 == 0 and steps and len(steps) == 1 and steps[0]['result'] == 'ok' and not case.get('virtual'):
            # a base graph OBJECT resolved twice: a node that had a fragment the first time and is virtual the second time
            # carries no fine nodes the second time (its stored fragment graph is rebuilt at every resolution)
            from props import c11
            c11.reused_base_graph(ctx, case, steps[0]['fine_graph'],
                                  {'last_all_atom': case.get('all_atom', True), 'legacy': case.get('legacy', True)})
            ctx.feature('reused-base-graph')


def corpus_case(ctx, payload):
    case = payload.get('case', {})
    if isinstance(case, dict) and 's' in case and case.get('kind') != 'compat':
        suites.run_resolve_case(ctx, 'corpus', case, oracle=oracle)


def replay(payload):
    import check
    ctx = check.Ctx(PROP, 'quick', 0)
    case = dict(payload['case'])
    if case.get('variant') == 'reused-base-graph':
        from props import c11
        case['s'] = case.pop('orig')
        case.pop('variant')
        st = suites.run_resolve_case(ctx, 'replay', case, oracle=None, compare=False)
        c11.reused_base_graph(ctx, case, st[0]['fine_graph'], {'last_all_atom': case.get('all_atom', True), 'legacy': case.get('legacy', True)})
    else:
        suites.run_resolve_case(ctx, 'replay', case, oracle=oracle, compare=False)
    for c, what, _ in ctx.failures:
        print('FAILS:', what)
    print('input:', payload['case'].get('s'))
    return 1 if ctx.failures else 0


def finding_still_fails(f):
    return False
