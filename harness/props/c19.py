"""
C19 — 2-D layout gives every node a finite position at the requested scale.
"""
import math
import struct

import networkx as nx
import numpy as np

import gen_mol
import impl
import lib
import suites

PROP = 'C19'
LEAN_TARGETS = ['CGV.Props.C19']
RULE = ('connected graphs with >= 1 bond: chains, stars, rings, fused rings, random trees / dense graphs, resolved '
        'molecules with hydrogens; bond-length settings, random relabelings, layout RNG seeds; the positions returned by '
        'the (external) Kamada-Kawai engine and the distance table handed to it are captured in-process; the Lean model '
        '(Float instance) must reproduce the distance table and the rescaled positions at 1e-9; oracle: one finite '
        'position per node, bonded nodes distinct, mean bond length = requested length (1e-9 relative), also after '
        'relabeling; sequences of molecules drawn one after the other through draw_molecule with different bond lengths '
        '(oracle only: each drawing has the scale it asked for); non-trivial = >= 3 nodes')
ASSUMPTIONS = ['networkx spring / Kamada-Kawai layouts are external (contract Y0: one finite 2-vector per node, bonded nodes '
               'apart — checked on every captured call)', 'IEEE rounding: the mean equals the requested length to ~1e-12 only']
TRUSTED_EXTRA = ['networkx layout engines, numpy; floating point is executed (Float), proved over the reals']


def bits_to_float(n):
    return struct.unpack('<d', struct.pack('<Q', n))[0]


def rnd_graph(rng, nmax):
    kind = rng.choice(['chain', 'star', 'ring', 'fused', 'tree', 'dense'])
    n = rng.randint(2, nmax)
    if kind == 'chain':
        g = nx.path_graph(n)
    elif kind == 'star':
        g = nx.star_graph(max(1, n - 1))
    elif kind == 'ring':
        g = nx.cycle_graph(max(3, n))
    elif kind == 'fused':
        g = nx.cycle_graph(6)
        g.add_edges_from([(0, 6), (6, 7), (7, 8), (8, 9), (9, 1)])
    else:
        g = nx.Graph()
        g.add_node(0)
        for i in range(1, n):
            g.add_edge(i, rng.randrange(i))
        if kind == 'dense':
            for _ in range(rng.randint(1, n)):
                a, b = rng.randrange(n), rng.randrange(n)
                if a != b:
                    g.add_edge(a, b)
    keys = rng.sample(range(3 * len(g) + 3), len(g))
    return nx.relabel_nodes(g, dict(zip(sorted(g.nodes), keys)))


def decorate(g, case):
    """attributes a molecule graph may carry and the layout has no business with: bond orders (zero-order bonds of coarse
    graphs included — they are bonds of the graph like any other) and stored 3D coordinates (all atoms on the z axis, the
    worst projection, or anywhere)"""
    decor = case.get('decor')
    if not decor:
        return g
    import random
    r = random.Random(case.get('seed', 0) * 7919 + len(g))
    g = g.copy()
    if 'orders' in decor:
        for k, (a, c) in enumerate(g.edges):
            g.edges[a, c]['order'] = 0 if (k == 0 or r.random() < 0.25) else r.choice([1, 1, 2, 1.5, 3])
    if 'positions-z' in decor:
        for k, n in enumerate(g.nodes):
            g.nodes[n]['position'] = np.array([0.0, 0.0, 1.5 * k])
    elif 'positions' in decor:
        for n in g.nodes:
            g.nodes[n]['position'] = np.array([r.uniform(-3, 3), r.uniform(-3, 3), r.uniform(-3, 3)])
    return g


def layout_case(ctx, suite, g, b, case):
    import cgsmiles.graph_layout as gl
    g = decorate(g, case)
    captured = {}
    real_kk = gl.nx.kamada_kawai_layout

    class NxProxy:
        def __getattr__(self, name):
            if name == 'kamada_kawai_layout':
                def kk(graph, **kw):
                    out = real_kk(graph, **kw)
                    captured['dist'] = {s: dict(d) for s, d in kw.get('dist', {}).items()}
                    captured['pos'] = {k: np.array(v, dtype=float) for k, v in out.items()}
                    return out
                return kk
            return getattr(nx, name)
    old = gl.nx
    gl.nx = NxProxy()
    np.random.seed(case.get('seed', 0))
    # the molecule as handed over: the guarantees are about ITS nodes and bonds
    nodes_in, edges_in = list(g.nodes), [tuple(e) for e in g.edges]
    try:
        with lib.quiet():
            align = None if case.get('align') is None else np.array(case['align'], dtype=float)
            pos = gl.vespr_layout(g, default_bond=b) if align is None else gl.vespr_layout(g, default_bond=b, align_with=align)
    except Exception as err:   # noqa: BLE001
        ctx.fail(case, f'vespr_layout raised {type(err).__name__}: {str(err)[:80]}')
        return None
    finally:
        gl.nx = old
    ctx.count(suite, lib.stable_hash([len(g), g.number_of_edges(), b, sorted(g.degree)]), nontrivial=len(g) >= 3,
              sample={'nodes': len(g), 'edges': g.number_of_edges(), 'bond': b})
    # contract Y0 on the engine's answer
    if 'pos' not in captured or set(captured['pos']) != set(g.nodes) or \
            any(not np.all(np.isfinite(p)) or p.shape != (2,) for p in captured['pos'].values()):
        ctx.contract('Y0', case, 'layout engine did not return one finite 2-vector per node')
        engine_ok = False
    elif any(np.linalg.norm(captured['pos'][a] - captured['pos'][c]) <= 1e-9 for a, c in g.edges):
        ctx.contract('Y0', case, 'layout engine placed two bonded nodes on the same point')
        engine_ok = False
    else:
        engine_ok = True
    # (the property itself is checked on the returned positions below, whatever the engine did)
    if engine_ok and not ctx.oracle_only and not nx.get_node_attributes(g, 'ez_isomer') and case.get('align') is None:
        # distance table
        ds = sorted({int(round(d)) for s in nx.shortest_path_length(g) for d in s[1].values()})
        raw = dict(nx.shortest_path_length(g))
        rep = ctx.model({'op': 'targetdist', 'd': ds})
        table = dict(zip(ds, [bits_to_float(x) for x in rep['ok']]))
        for s, dd in captured['dist'].items():
            for t, v in dd.items():
                want = table[raw[s][t]]
                if abs(v - want) > 1e-9 * max(1, abs(want)):
                    ctx.disagree(suite, case, f'target distance for graph distance {raw[s][t]}: implementation {v}, model {want}')
                    return pos
        keys = {k: i for i, k in enumerate(g.nodes)}
        req = {'op': 'rescale', 'pos': [[keys[k], float(p[0]), float(p[1])] for k, p in captured['pos'].items()],
               'edges': [[keys[a], keys[c]] for a, c in g.edges], 'b': float(b)}
        rep = ctx.model(req)
        inv = {i: k for k, i in keys.items()}
        for i, x, y in rep['ok']:
            k = inv[i]
            mx, my = bits_to_float(x), bits_to_float(y)
            if abs(mx - pos[k][0]) > 1e-9 * max(1, abs(mx)) or abs(my - pos[k][1]) > 1e-9 * max(1, abs(my)):
                ctx.disagree(suite, case, f'node {k}: implementation {list(pos[k])}, model ({mx}, {my})')
                return pos
    # oracle
    if list(g.nodes) != nodes_in or sorted(map(sorted, g.edges)) != sorted(map(sorted, edges_in)):
        ctx.fail(case, f'the layout changed the molecule it was given: {len(nodes_in)} nodes / {len(edges_in)} bonds before, '
                       f'{len(g)} / {g.number_of_edges()} after')
        return pos
    if set(pos) != set(nodes_in):
        ctx.fail(case, 'not exactly one position per node')
        return pos
    for k, p in pos.items():
        if np.shape(p) != (2,) or not np.all(np.isfinite(p)):
            ctx.fail(case, f'position of node {k} is {p}')
            return pos
    lens = [float(np.linalg.norm(pos[a] - pos[c])) for a, c in edges_in]
    if min(lens) <= 1e-9 * b:
        ctx.fail(case, 'two bonded nodes coincide')
        return pos
    mean = sum(lens) / len(lens)
    if abs(mean - b) > 1e-9 * max(1, b):
        ctx.fail(case, f'mean bond length {mean} but default_bond={b}')
    return pos


STEREO_MOLECULES = ['C1CCC/C=C\\CC1', 'C1CCCC/C=C\\CCC1', 'C1CCCC/C=C/CCCC1', 'C/C=C/C', 'C/C=C\\C', 'F/C=C/Cl', 'CC/C=C(/F)C',
                    'C1CC/C=C\\CC/C=C\\C1', 'OC/C=C/CC(=O)O']


def refined_case(ctx, g, b, align, case):
    """vespr_refined_layout: an optimiser on top of the same start — one finite position per node, bonded nodes apart,
    the molecule unchanged, and the requested SCALE (mean bond length within 25 % of default_bond: measured deviation of
    the optimiser on the unchanged tree is below 4 %), whatever axis the drawing is aligned with"""
    import cgsmiles.graph_layout as gl
    nodes_in, edges_in = list(g.nodes), [tuple(e) for e in g.edges]
    np.random.seed(case.get('seed', 0))
    try:
        with lib.quiet():
            pos = gl.vespr_refined_layout(g, default_bond=b, align_with=align)
    except Exception as err:   # noqa: BLE001
        ctx.fail(case, f'vespr_refined_layout raised {type(err).__name__}: {str(err)[:80]}')
        return
    ctx.count('refined', lib.stable_hash([len(g), g.number_of_edges(), b, None if align is None else list(map(float, align))]),
              nontrivial=len(g) >= 3, sample={'s': case.get('s'), 'bond': b})
    if list(g.nodes) != nodes_in or sorted(map(sorted, g.edges)) != sorted(map(sorted, edges_in)):
        ctx.fail(case, 'the refined layout changed the molecule it was given')
        return
    if set(pos) != set(nodes_in) or any(np.shape(p) != (2,) or not np.all(np.isfinite(p)) for p in pos.values()):
        ctx.fail(case, 'refined layout: not exactly one finite 2D position per node')
        return
    lens = [float(np.linalg.norm(pos[a] - pos[c])) for a, c in edges_in]
    if min(lens) <= 1e-9 * b:
        ctx.fail(case, 'refined layout: two bonded nodes coincide')
        return
    mean = sum(lens) / len(lens)
    if abs(mean - b) > 0.25 * b:
        ctx.fail(case, f'refined layout: mean bond length {mean:.4f} but default_bond={b} (align_with={None if align is None else list(align)})')


def drawn_sequence(ctx, mols, case):
    """the purpose clause of the property — "different molecules are drawn at the same scale": molecules drawn one after
    the other through `draw_molecule` (the consumer of the layouts), each with its own requested bond length; the
    positions it returns have that mean bond length for every drawing of the sequence, not only the first"""
    try:
        import matplotlib
        matplotlib.use('Agg')
        import matplotlib.pyplot as plt
        from cgsmiles.drawing import draw_molecule
    except Exception:    # noqa: BLE001 - no drawing backend here
        ctx.feature('drawn:no-matplotlib')
        return
    for k, (aa, b) in enumerate(mols):
        np.random.seed(case.get('seed', 0) + k)
        fig, ax = plt.subplots()
        try:
            with lib.quiet():
                _, pos = draw_molecule(aa, ax=ax, layout_method='vespr', default_bond=b)
        except Exception as err:   # noqa: BLE001
            plt.close(fig)
            ctx.fail(case, f'draw_molecule (drawing {k + 1} of the sequence) raised {type(err).__name__}: {str(err)[:80]}')
            return
        plt.close(fig)
        ctx.count('drawn', lib.stable_hash([case['seq'][k], b, k]), nontrivial=len(aa) >= 3, sample={'s': case['seq'][k], 'bond': b})
        if set(pos) != set(aa.nodes):
            ctx.fail(case, f'draw_molecule (drawing {k + 1}): not one position per atom')
            return
        lens = [float(np.linalg.norm(np.asarray(pos[a]) - np.asarray(pos[c]))) for a, c in aa.edges]
        mean = sum(lens) / len(lens)
        if abs(mean - b) > 1e-6 * b:
            ctx.fail(case, f'drawing {k + 1} of a sequence of drawings: mean bond length {mean:.6f} but default_bond={b} '
                           f'(bond lengths requested so far: {[x for _, x in mols[:k + 1]]})')
            return


def small_graphs():
    """the smallest and the most symmetric connected graphs: always laid out first"""
    out = [nx.path_graph(2), nx.path_graph(3), nx.cycle_graph(3), nx.complete_graph(4), nx.star_graph(3)]
    spiro = nx.cycle_graph(3)
    spiro.add_edges_from([(0, 3), (3, 4), (4, 0)])          # two triangles sharing a node (spiropentane)
    out.append(spiro)
    cubane = nx.Graph([(0, 1), (1, 2), (2, 3), (3, 0), (4, 5), (5, 6), (6, 7), (7, 4), (0, 4), (1, 5), (2, 6), (3, 7)])
    out.append(cubane)
    return out


def run(ctx):
    rng = ctx.rng('nxgraph')
    for g in small_graphs():
        for b in (1.0, 0.5):
            keys = rng.sample(range(3 * len(g) + 3), len(g))
            h = nx.relabel_nodes(g, dict(zip(sorted(g.nodes), keys)))
            case = {'kind': 'layout', 'nodes': list(h.nodes), 'edges': [list(e) for e in h.edges], 'bond': b, 'seed': 0}
            layout_case(ctx, 'small', h, b, case)
    for i in range(ctx.budget(60, 1500)):
        if ctx.out_of_time():
            break
        g = rnd_graph(rng, 9 if ctx.tier == 'quick' else 16)
        b = rng.choice([1, 1.0, 0.5, 2.5, 10])
        case = {'kind': 'layout', 'nodes': list(g.nodes), 'edges': [list(e) for e in g.edges], 'bond': b, 'seed': rng.randint(0, 999)}
        if i % 4 == 3:
            # the drawing aligned with an axis (as draw_molecule does): the scale is still the requested one
            case['align'] = rng.choice([[1.0, 0.0], [0.0, 1.0], [3.0, 2.0], [0.3, 0.4]])
            ctx.feature('aligned')
        if i % 5 in (1, 2):
            case['decor'] = [['orders'], ['positions-z'], ['orders', 'positions'], ['positions'], ['orders', 'positions-z']][(i // 5) % 5]
            ctx.feature('decorated:' + '+'.join(case['decor']))
        layout_case(ctx, 'nxgraph', g, b, case)
        if i % 7 == 3 and 'decor' not in case and g.number_of_edges() >= 2:
            # the same graph OBJECT laid out again after a bond was moved in place (same atoms, same number of bonds): the
            # second layout is a layout of the molecule as it is now
            leaves = [n for n in g if g.degree(n) == 1]
            if leaves:
                leaf = rng.choice(leaves)
                old_nb = next(iter(g[leaf]))
                others = [n for n in g if n not in (leaf, old_nb)]
                if others:
                    g.remove_edge(leaf, old_nb)
                    g.add_edge(leaf, rng.choice(others))
                    case3 = dict(case, nodes=list(g.nodes), edges=[list(e) for e in g.edges], edited_in_place=True)
                    ctx.feature('laid-out-again-after-edit')
                    layout_case(ctx, 'nxgraph-edited', g, b, case3)
        # relabeling: the guarantees hold for every labelling
        perm = list(g.nodes)
        rng.shuffle(perm)
        h = nx.relabel_nodes(g, dict(zip(g.nodes, perm)))
        case2 = dict(case, nodes=list(h.nodes), edges=[list(e) for e in h.edges], relabeled=True)
        layout_case(ctx, 'nxgraph-relabel', h, b, case2)
    for i in range(ctx.budget(15, 300)):
        c = gen_mol.cut_case(rng, nmin=3, nmax=7)
        try:
            with lib.quiet():
                _, aa = impl.resolver_from_string(c['s']).resolve()
        except Exception:   # noqa: BLE001
            continue
        if aa.number_of_edges() == 0 or not nx.is_connected(aa):
            continue
        case = {'kind': 'layout-mol', 's': c['s'], 'bond': 1.0, 'seed': 1}
        layout_case(ctx, 'molecule', aa, 1.0, case)
    # molecules with cis/trans annotations (the layout rotates parts of them), double bonds in rings included
    for i in range(ctx.budget(6, 60)):
        smi = STEREO_MOLECULES[i % len(STEREO_MOLECULES)]
        s = '{[#A]}.{#A=%s}' % smi
        try:
            with lib.quiet():
                _, aa = impl.resolver_from_string(s).resolve()
        except Exception:   # noqa: BLE001
            continue
        b = rng.choice([1.0, 1.5, 0.5])
        case = {'kind': 'layout-mol', 's': s, 'bond': b, 'seed': rng.randint(0, 9)}
        ctx.feature('stereo-molecule' + (':ring' if '1' in smi else ':chain'))
        layout_case(ctx, 'molecule-stereo', aa, b, case)
    # the refined layout, aligned with nothing / a unit axis / an axis that is not a unit vector
    for i in range(ctx.budget(4, 60)):
        c = gen_mol.cut_case(rng, nmin=3, nmax=8)
        try:
            with lib.quiet():
                _, aa = impl.resolver_from_string(c['s']).resolve()
        except Exception:   # noqa: BLE001
            continue
        if aa.number_of_edges() == 0 or not nx.is_connected(aa):
            continue
        b = rng.choice([1.0, 0.5, 2.5])
        align = [None, np.array([0., 1.]), np.array([3., 2.]), np.array([0.3, 0.4])][i % 4]
        case = {'kind': 'layout-refined', 's': c['s'], 'bond': b, 'seed': i, 'align': None if align is None else list(map(float, align))}
        ctx.feature('refined:' + ('no-axis' if align is None else 'unit-axis' if abs(np.linalg.norm(align) - 1) < 1e-12 else 'non-unit-axis'))
        refined_case(ctx, aa, b, align, case)
    drawn_suite(ctx, rng)
    if ctx.tier == 'thorough':
        long_chain(ctx)


def long_chain(ctx):
    """an extended molecule of several hundred beads: the engine's unit-box positions have bonds of a few thousandths, the
    rescaling still brings the mean to the requested length (thorough tier: the layout of 340 nodes takes half a minute)"""
    g = nx.path_graph(340)
    case = {'kind': 'layout', 'nodes': list(g.nodes), 'edges': [list(e) for e in g.edges], 'bond': 1.5, 'seed': 0}
    ctx.feature('chain-of-340')
    layout_case(ctx, 'long-chain', g, 1.5, case)


def drawn_suite(ctx, rng):
    for i in range(ctx.budget(3, 30)):
        mols, seq = [], []
        for _ in range(3):
            c = gen_mol.cut_case(rng, nmin=3, nmax=6)
            try:
                with lib.quiet():
                    _, aa = impl.resolver_from_string(c['s']).resolve()
            except Exception:   # noqa: BLE001
                continue
            if aa.number_of_edges() == 0 or not nx.is_connected(aa):
                continue
            mols.append((aa, rng.choice([1.0, 0.5, 2.0, 1.5])))
            seq.append(c['s'])
        if len(mols) >= 2:
            if len({b for _, b in mols}) == 1:
                mols[-1] = (mols[-1][0], mols[-1][1] * 2)
            drawn_sequence(ctx, mols, {'kind': 'drawn', 'seq': seq, 'bonds': [b for _, b in mols], 'seed': i})


def graph_of(case):
    if case.get('kind') == 'layout-mol':
        with lib.quiet():
            _, aa = impl.resolver_from_string(case['s']).resolve()
        return aa
    g = nx.Graph()
    g.add_nodes_from(case['nodes'])
    g.add_edges_from(case['edges'])
    return g


def corpus_case(ctx, payload):
    case = payload['case']
    if case.get('kind') == 'drawn':
        mols = []
        for t, b in zip(case['seq'], case['bonds']):
            with lib.quiet():
                _, aa = impl.resolver_from_string(t).resolve()
            mols.append((aa, b))
        drawn_sequence(ctx, mols, case)
        return
    if case.get('kind') == 'layout-refined':
        with lib.quiet():
            _, aa = impl.resolver_from_string(case['s']).resolve()
        refined_case(ctx, aa, case['bond'], None if case.get('align') is None else np.array(case['align']), case)
        return
    layout_case(ctx, 'corpus', graph_of(case), case['bond'], case)


def replay(payload):
    import check
    ctx = check.Ctx(PROP, 'quick', 0, oracle_only=True)
    case = payload['case']
    if case.get('kind') in ('layout-refined', 'drawn'):
        corpus_case(ctx, payload)
    else:
        layout_case(ctx, 'replay', graph_of(case), case['bond'], case)
    for c, what, _ in ctx.failures:
        print('FAILS:', what)
    return 1 if ctx.failures else 0


def finding_still_fails(f):
    return False
