"""
C08 — fragment definitions and complete strings round-trip through the writer.
"""
import networkx as nx

import gen_frag
import gen_graph
import gen_levels
import gen_mol
import impl
import lib
import suites
from props.c01 import nm as atom_nm, em

PROP = 'C08'
LEAN_TARGETS = ['CGV.Props.C08', 'CGV.Props.C08Path', 'CGV.Props.C08Frag']
RULE = ('fragment sets the reader accepts — coarse fragments (named nodes, bond orders, rings) and atomistic fragments '
        'of fragmented molecules — with 0-3 descriptors per atom (4 kinds, labels, orders 0-3); written by '
        'write_cgsmiles_fragments (implementation and Lean model of write_graph + translated format_bonding, string '
        'equality) and read back (implementation and Lean strip model); complete multi-level strings written from a '
        'resolver\'s inputs; oracle: fragments isomorphic incl. names/elements, charges, orders, aromaticity and the '
        'ordered descriptor list of every atom; written complete string resolves to the same molecule; non-trivial = '
        'at least one descriptor')
ASSUMPTIONS = ['pysmiles format_atom / read_smiles round trip on the organic subset (contract P0) for atomistic fragments']


def node_match_cg(a, b):
    return a.get('atomname') == b.get('atomname') and list(a.get('bonding', []) or []) == list(b.get('bonding', []) or [])


def node_match_aa(a, b):
    return (a.get('element') == b.get('element') and a.get('charge', 0) == b.get('charge', 0) and
            bool(a.get('aromatic')) == bool(b.get('aromatic')) and
            list(a.get('bonding', []) or []) == list(b.get('bonding', []) or []))


def roundtrip(ctx, suite, block, all_atom, case):
    from cgsmiles.read_fragments import read_fragments
    from cgsmiles.write_cgsmiles import write_cgsmiles_fragments
    try:
        with lib.quiet():
            frags = read_fragments(block, all_atom=all_atom)
    except Exception:    # noqa: BLE001
        ctx.count(suite, nontrivial=False)
        return
    ndesc = sum(len(d.get('bonding', []) or []) for g in frags.values() for _, d in g.nodes(data=True))
    ctx.count(suite, lib.stable_hash([block]), nontrivial=ndesc > 0, sample=block)
    if not all_atom:
        # the coarse fragment reader as a whole (scanner + graph reader + attaching) against `readFragCG`
        for fragment in block[1:-1].split(','):
            delim = fragment.find('=')
            suites.run_readfrag_case(ctx, suite + '-readfrag', fragment[1:delim], fragment[delim + 1:], case)
    # model: every fragment graph through write_graph
    for name, g in frags.items():
        if len(g) == 0:
            continue
        suites.run_write_case(ctx, suite + '-write', g, case, smiles_format=all_atom, name_attr='atomname')
    try:
        with lib.quiet():
            written = write_cgsmiles_fragments(frags, smiles_format=all_atom)
    except Exception as err:   # noqa: BLE001
        ctx.fail(case, f'writer raised {lib.err_class(err)} on fragments the reader accepted')
        return
    case = dict(case, written=written)
    # model of the reader side on the written text
    if not ctx.oracle_only:
        rep = ctx.model({'op': 'splitfrags', 's': written})
        from props import c13
        for name, text in rep['ok']:
            c13.compare(ctx, suite + '-strip', text, oracle=False)
    try:
        with lib.quiet():
            back = read_fragments(written, all_atom=all_atom)
    except Exception as err:   # noqa: BLE001
        ctx.fail(case, f'written fragment string {written} is rejected: {lib.err_class(err)}', finding=classify(case, frags))
        return
    if sorted(back) != sorted(frags):
        ctx.fail(case, f'fragment names {sorted(back)} after round trip, were {sorted(frags)}')
        return
    for name in frags:
        a, b = frags[name], back[name]
        ok = nx.is_isomorphic(a, b, node_match=node_match_aa if all_atom else node_match_cg, edge_match=em)
        if not ok:
            ctx.fail(case, f'fragment {name} changes in the round trip: written as {written}', finding=classify(case, frags))
            return


def classify(case, frags):
    return None


def full_string(ctx, rng):
    """write_cgsmiles(base graph, fragment dicts) -> resolves to the same molecule as the original string"""
    from cgsmiles.write_cgsmiles import write_cgsmiles
    r0 = rng.random()
    aa = True
    if r0 < 0.55:
        case = gen_mol.cut_case(rng, nmax=9, aromatic_p=0.15)
    elif r0 < 0.8:
        case = gen_levels.hier_case(rng)
    else:
        # the same hierarchy without its atomistic block: the last level is coarse
        case = gen_levels.hier_case(rng)
        case = dict(case, s=case['s'].rsplit('.{', 1)[0])
        aa = False
    try:
        r = impl.resolver_from_string(case['s'], last_all_atom=aa)
        with lib.quiet():
            written = write_cgsmiles(r.molecule, r.fragment_dicts, last_all_atom=aa)
            _, ref = impl.resolver_from_string(case['s'], last_all_atom=aa).resolve_all()
    except Exception:    # noqa: BLE001
        ctx.count('full-string', nontrivial=False)
        return
    ctx.count('full-string', lib.stable_hash(case['s']), sample=case['s'])
    ctx.feature('full-string:' + ('atomistic-last' if aa else 'coarse-last'))
    c = {'kind': 'full', 's': case['s'], 'written': written, 'all_atom': aa}
    try:
        with lib.quiet():
            _, got = impl.resolver_from_string(written, last_all_atom=aa).resolve_all()
    except Exception as err:   # noqa: BLE001
        ctx.fail(c, f'written complete string {written} is rejected: {lib.err_class(err)}', finding=classify(c, None))
        return
    node_match = atom_nm if aa else (lambda a, b: a.get('atomname') == b.get('atomname') and a.get('fragname') == b.get('fragname'))
    if not nx.is_isomorphic(ref, got, node_match=node_match, edge_match=em):
        ctx.fail(c, f'written complete string {written} resolves to a different molecule')


def run(ctx):
    rng = ctx.rng('fragsets')
    for _ in range(ctx.budget(500, 10000)):
        if ctx.out_of_time():
            break
        n = rng.randint(1, 3)
        frs = []
        for i in range(n):
            g = gen_graph.graph_case(rng, maxnodes=6, rings=True)

            def extra(it):
                out = ''
                if rng.random() < 0.4:
                    for _ in range(rng.choice([1, 1, 2, 3])):
                        o = rng.choice([1, 1, 1, 2, 3, 0])
                        out += ({1: '', 2: '=', 3: '#', 0: '.'}[o]) + '[' + rng.choice('$$><!') + rng.choice(['', '', 'A', 'b1']) + ']'
                return out
            lead = ''
            if rng.random() < 0.3:
                for _ in range(rng.choice([1, 1, 2])):
                    o = rng.choice([1, 1, 2, 3, 0])
                    lead += '[' + rng.choice('$$><!') + rng.choice(['', '', 'A', 'b1']) + ']' + {1: '', 2: '=', 3: '#', 0: '.'}[o]
            frs.append('#F%d=%s' % (i, lead + gen_graph.render(g['ast'], extra=extra)))
        block = '{' + ','.join(frs) + '}'
        roundtrip(ctx, 'cg-fragments', block, False, {'kind': 'fragset', 's': block, 'all_atom': False})
    for _ in range(ctx.budget(300, 6000)):
        if rng.random() < 0.15:
            # two aromatic rings joined by a single bond (it has to be written '-')
            c = gen_mol.cut_case(rng, nmin=12, nmax=14, aromatic_p=1.0, biaryl_p=1.0)
            ctx.feature('aa-fragments:biaryl')
        elif rng.random() < 0.2:
            # a thioether / amine on an aromatic ring: an upper-case atom directly followed by a lower-case one ('Sc', 'Nc')
            c = gen_mol.cut_case(rng, nmin=8, nmax=12, aromatic_p=1.0, thio_p=1.0)
            ctx.feature('aa-fragments:thioether')
        else:
            c = gen_mol.cut_case(rng, nmax=10, aromatic_p=0.2, share_p=rng.choice([0, 0, 0.3]))
        block = '{' + c['s'].split('}.{', 1)[1]
        roundtrip(ctx, 'aa-fragments', block, True, {'kind': 'fragset', 's': block, 'all_atom': True})
    # bonds of order 1.5 written with ':' between atoms that are NOT written as aromatic (upper case): the order is part
    # of the fragment and comes back
    for i in range(ctx.budget(6, 60)):
        d1, d2 = rng.choice(['[$]', '[>]', '[$A]', '[<b1]']), rng.choice(['[$]', '[<]', '[$A]', '[!]'])
        block = rng.choice(['{#RING=%sC1:C:C:C:C:C:1%s}', '{#COO=%sCC(:O):O%s}', '{#CUT=%sC:C[>]=[<]%s,#PH=[$]c1ccccc1[<]}',
                            '{#N=%sC:N:C%s,#M=[$]CC}']) % (d1, d2)
        ctx.feature('aa-fragments:explicit-aromatic-symbol')
        roundtrip(ctx, 'aa-fragments', block, True, {'kind': 'fragset', 's': block, 'all_atom': True})
    for _ in range(ctx.budget(150, 3000)):
        full_string(ctx, rng)


def corpus_case(ctx, payload):
    case = payload['case']
    if case.get('kind') == 'fragset':
        roundtrip(ctx, 'corpus', case['s'], case['all_atom'], case)


def replay(payload):
    import check
    ctx = check.Ctx(PROP, 'quick', 0, oracle_only=True)
    case = payload['case']
    if case.get('kind') == 'fragset':
        roundtrip(ctx, 'replay', case['s'], case['all_atom'], case)
    else:
        from cgsmiles.write_cgsmiles import write_cgsmiles
        aa = case.get('all_atom', True)
        r = impl.resolver_from_string(case['s'], last_all_atom=aa)
        with lib.quiet():
            written = write_cgsmiles(r.molecule, r.fragment_dicts, last_all_atom=aa)
            _, ref = impl.resolver_from_string(case['s'], last_all_atom=aa).resolve_all()
        print('input', case['s'], '\nwritten', written)
        try:
            with lib.quiet():
                _, got = impl.resolver_from_string(written, last_all_atom=aa).resolve_all()
            nmf = atom_nm if aa else (lambda a, b: a.get('atomname') == b.get('atomname'))
            if not nx.is_isomorphic(ref, got, node_match=nmf, edge_match=em):
                print('FAILS: the written string resolves to a different molecule')
                return 1
        except Exception as err:   # noqa: BLE001
            print('FAILS: the written string is rejected:', type(err).__name__, str(err)[:100])
            return 1
    for c, what, _ in ctx.failures:
        print('FAILS:', what)
    return 1 if ctx.failures else 0


def finding_still_fails(f):
    return False
