"""
C16 — sampled polymers are well-formed molecules built from the given fragments.
"""
import collections

import networkx as nx

import gen_sampler
import lib
import suites
from props import c09

PROP = 'C16'
LEAN_TARGETS = ['CGV.Props.C16', 'CGV.Props.C16Run', 'CGV.Props.C16Copies']
RULE = ('fragment sets (1-4 fragments, 1-4 descriptors each, mixed kinds, labels, orders), reactivity tables with zeros '
        'and missing keys, terminal sets, seeds, target weights, coarse and all-atom mode; the random decisions of the '
        'real run are recorded (cgsmiles.sample.random wrapped in-process) and replayed into the Lean model: exact dump '
        'of the sampled molecule incl. bonding attributes; oracle: connected, tree of fragment copies, one bond per '
        'added fragment joining complementary descriptors of equal order, no descriptor used twice, copies isomorphic '
        'to templates, canonical numbering, valence completeness for all-atom; non-trivial = at least one growth step')
ASSUMPTIONS = ['random.choice / random.choices are parameters (contract G0: index in range, non-zero weight — checked per call)',
               'pysmiles.correct_aromatic_rings recorded for all-atom samples']


def oracle(ctx, case, mol, rec):
    if mol is None:
        return
    slim = {k: case[k] for k in case if k != 'masses'} | ({'masses': case['masses']} if 'masses' in case else {})
    sampler = rec['sampler']
    if len(mol) == 0:
        ctx.fail(slim, 'empty molecule')
        return
    if not nx.is_connected(mol):
        ctx.fail(slim, 'sampled molecule is not connected')
    keys = sorted(mol.nodes)
    if keys != list(range(len(keys))):
        ctx.fail(slim, f'node keys are not 0..n-1: {keys[:8]}')
        return
    fids = []
    for k in keys:
        f = mol.nodes[k].get('fragid')
        if not isinstance(f, list) or len(f) != 1:
            ctx.fail(slim, f'node {k} has membership {f!r}')
            return
        fids.append(f[0])
    if fids != sorted(fids):
        ctx.fail(slim, 'nodes are not ordered by fragment membership')
    inst = collections.defaultdict(list)
    for k in keys:
        inst[fids[k]].append(k)
    heavy = lambda n: mol.nodes[n].get('element') != 'H' or 'bonding' in mol.nodes[n] or not case['all_atom']  # noqa: E731
    inter = [(a, b, d) for a, b, d in mol.edges(data=True) if fids[a] != fids[b]]
    if len(inter) != len(inst) - 1:
        ctx.fail(slim, f'{len(inter)} inter-fragment bonds for {len(inst)} fragment copies (must be a tree)')
    q = nx.Graph()
    q.add_nodes_from(inst)
    q.add_edges_from((fids[a], fids[b]) for a, b, _ in inter)
    if len(inst) > 1 and not nx.is_tree(q):
        ctx.fail(slim, 'the fragment copies do not form a tree')
    used = collections.Counter()
    for a, b, d in inter:
        bd = d.get('bonding')
        if not bd:
            ctx.fail(slim, f'inter-fragment bond {a}-{b} carries no descriptor pair')
            continue
        x, y = bd
        if x[-1] != y[-1]:
            ctx.fail(slim, f'bond {a}-{b} joins descriptors of different order {x} / {y}')
        if x[0] == '$' and y[0] != '$':
            ctx.fail(slim, f'bond {a}-{b} joins {x} with {y}')
        if x[0] in '<>' and not (y[0] in '<>' and y[0] != x[0] and x[1:] == y[1:]):
            ctx.fail(slim, f'bond {a}-{b} joins {x} with {y} (not complementary)')
        if d.get('order') != int(x[-1]):
            ctx.fail(slim, f'bond {a}-{b} has order {d.get("order")}, descriptor says {x[-1]}')
        # which end carried which descriptor: the later fragment copy is the added one (partner y)
        src, tgt = (a, b) if fids[a] < fids[b] else (b, a)
        used[(src, x)] += 1
        used[(tgt, y)] += 1
    # copies isomorphic to templates, descriptors accounted for
    frag_dict = sampler.fragment_dict
    for f, nodes in inst.items():
        names = {mol.nodes[n].get('fragname') for n in nodes}
        if len(names) != 1:
            ctx.fail(slim, f'fragment copy {f} reports names {names}')
            continue
        name = names.pop()
        tmpl = frag_dict.get(name)
        if tmpl is None:
            ctx.fail(slim, f'fragment copy {f} has unknown name {name!r}')
            continue
        sub = mol.subgraph([n for n in nodes if mol.nodes[n].get('element') != 'H' or not case['all_atom']])
        tsub = tmpl.subgraph([n for n in tmpl if tmpl.nodes[n].get('element') != 'H' or not case['all_atom']])
        nmatch = (lambda u, v: u.get('element') == v.get('element') and u.get('charge', 0) == v.get('charge', 0)) if case['all_atom'] \
            else (lambda u, v: u.get('atomname') == v.get('atomname'))
        if not nx.is_isomorphic(sub, tsub, node_match=nmatch):
            ctx.fail(slim, f'fragment copy {f} is not isomorphic to its template {name}')
    # no descriptor used twice: per atom, uses + what is left fits into what the template atom carried
    for (n, desc), cnt in used.items():
        name = mol.nodes[n].get('fragname')
        tmpl = frag_dict.get(name)
        if tmpl is None:
            continue
        pos = inst[fids[n]].index(n)
        tnodes = list(tmpl.nodes)
        if pos < len(tnodes):
            have = list(tmpl.nodes[tnodes[pos]].get('bonding', []) or []).count(desc)
            left = list(mol.nodes[n].get('bonding', []) or []).count(desc)
            if cnt + left > have:
                ctx.fail(slim, f'descriptor {desc} on atom {n}: used {cnt}x, still listed {left}x, template has {have}')
    if case['all_atom']:
        c09.check_valence(ctx, slim, mol, 'sample')


def run(ctx):
    gen_sampler.sampler_suite(ctx, 'sampler', ctx.budget(500, 10000), oracle=oracle)


def corpus_case(ctx, payload):
    gen_sampler.run_sampler_case(ctx, 'corpus', payload['case'], oracle=oracle)


def replay(payload):
    import check
    ctx = check.Ctx(PROP, 'quick', 0, oracle_only=True)
    gen_sampler.run_sampler_case(ctx, 'replay', payload['case'], oracle=oracle, compare=False)
    for c, what, _ in ctx.failures:
        print('FAILS:', what)
    print('input:', payload['case'])
    return 1 if ctx.failures else 0


def finding_still_fails(f):
    return False
