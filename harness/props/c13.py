"""
C13 — bonding descriptors are separated from fragment text exactly.
"""
import gen_frag
import gen_graph
import lib
import suites

PROP = 'C13'
LEAN_TARGETS = ['CGV.Props.C13', 'CGV.Props.C13Chain', 'CGV.Props.C13Tokens', 'CGV.Props.C13Lead']
RULE = ('fragment texts over organic atoms (one/two-letter, aromatic lower case), bracket atoms with annotations, CG '
        'nodes, bond symbols, nested branches, ring markers (digit, %nn, with/without bond symbol), E/Z marks, with 0-3 '
        'descriptors per atom (4 kinds, labels, orders 0-3 via symbol) before or after ring markers, after branch '
        'closings and in leading position; strip_bonding_descriptors executed by implementation and Lean model (exact '
        '4-tuple) incl. character-level mutations (malformed stream); oracle: the 4-tuple the builder expects; '
        'non-trivial = at least one descriptor or annotation')
ASSUMPTIONS = ['the annotation parser is the one of C14 (fragment dialect)']


def run_strip(s):
    from cgsmiles.read_fragments import strip_bonding_descriptors
    try:
        with lib.quiet():
            smile, bonding, ez, attrs = strip_bonding_descriptors(s)
        return ('ok', {'smile': smile, 'bonding': sorted([k, list(v)] for k, v in bonding.items()),
                       'ez': sorted([k, v] for k, v in ez.items()),
                       'attrs': sorted([k, sorted([a, suites.canon_attr_val(x)] for a, x in d.items())] for k, d in attrs.items())})
    except (StopIteration, RuntimeError):
        return ('err', 'other')
    except Exception as err:    # noqa: BLE001
        return ('err', lib.err_class(err))


def compare(ctx, suite, s, case=None, oracle=True):
    got = run_strip(s)
    case = case or {'kind': 'fragtext', 's': s}
    ctx.count(suite, lib.stable_hash([got[0], got[1] if got[0] == 'err' else [len(got[1]['bonding']), len(got[1]['attrs']), len(got[1]['smile'])],
                                      s.count('['), s.count('('), sum(c.isdigit() for c in s)]),
              nontrivial='[' in s, sample=s)
    ctx.feature(f'{suite}:{got[0] if got[0] == "ok" else got[1]}')
    if not ctx.oracle_only:
        rep = ctx.model({'op': 'strip', 's': s})
        if 'fail' in rep:
            raise RuntimeError(rep['fail'])
        if rep.get('err') == 'unsupported':
            ctx.skip_unsupported()
        elif got[0] == 'ok':
            if 'ok' not in rep:
                ctx.disagree(suite, case, f'implementation strips, model raises {rep.get("err")}')
            else:
                m = rep['ok']
                mod = {'smile': m['smile'], 'bonding': sorted(m['bonding']), 'ez': sorted(m['ez']),
                       'attrs': sorted([k, sorted([a, suites.model_attr_val(x)] for a, x in d)] for k, d in m['attrs'])}
                d = lib.diff_obj(mod, got[1], 'strip')
                if d:
                    ctx.disagree(suite, case, d)
        elif 'ok' in rep or rep.get('err') != got[1]:
            ctx.disagree(suite, case, f'implementation raises {got[1]}, model {"strips" if "ok" in rep else rep.get("err")}')
    if oracle and 'clean' in case:
        if got[0] != 'ok':
            ctx.fail(case, f'valid fragment text rejected: {got[1]}')
            return got
        r = got[1]
        if r['smile'] != case['clean']:
            ctx.fail(case, f'clean text {r["smile"]!r}, expected {case["clean"]!r}')
        elif {str(k): v for k, v in r['bonding'] if v} != {k: v for k, v in case['bonding'].items() if v}:
            ctx.fail(case, f'descriptors {r["bonding"]}, expected {case["bonding"]}')
        elif {str(k): v for k, v in r['ez']} != case['ez']:
            ctx.fail(case, f'E/Z marks {r["ez"]}, expected {case["ez"]}')
        else:
            have = {str(k): {a: v for a, v in d} for k, d in r['attrs']}
            for k, exp in case['attrs'].items():
                for a, v in exp.items():
                    hv = have.get(k, {}).get(a)
                    want = suites.canon_attr_val(v)
                    if hv != want:
                        ctx.fail(case, f'annotation {a} of atom {k}: {hv}, expected {want}')
                        return got
    return got


def run(ctx):
    rng = ctx.rng('fragtext')
    for _ in range(ctx.budget(2500, 50000)):
        if ctx.out_of_time():
            break
        case = gen_frag.frag_case(rng)
        compare(ctx, 'fragtext', case['s'], case)
    for _ in range(ctx.budget(1500, 30000)):
        case = gen_frag.frag_case(rng)
        s = case['s']
        for _ in range(rng.randint(1, 2)):
            s = gen_graph.mutate(rng, s) or 'C'
        compare(ctx, 'fragtext-bad', s, oracle=False)


def corpus_case(ctx, payload):
    case = payload['case']
    compare(ctx, 'corpus', case['s'], case)


def replay(payload):
    import check
    ctx = check.Ctx(PROP, 'quick', 0, oracle_only=True)
    case = payload['case']
    got = compare(ctx, 'replay', case['s'], case)
    print('input:', case['s']); print('result:', got[1])
    for c, what, _ in ctx.failures:
        print('FAILS:', what)
    return 1 if ctx.failures else 0


def finding_still_fails(f):
    return False
