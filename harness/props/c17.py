"""
C17 — the sampler honours target weight, reactivities, terminals and seed.
"""
import collections
import json
import os
import subprocess
import sys

import gen_sampler
import lib
import suites

PROP = 'C17'
LEAN_TARGETS = ['CGV.Props.C17']
RULE = ('same generator as C16 (fragment sets, reactivity tables with zeros / missing keys / order suffixes omitted, '
        'terminal sets, target weights around multiples of fragment masses, seeds); decisions recorded and replayed into '
        'the Lean model (exact molecule); oracle on the implementation: summed mass of the fragments added during growth '
        'reaches the target and would not without the last one, element-derived masses = sum of atomic masses incl. '
        'implicit hydrogens, zero-reactivity sites / partners never chosen, terminal handling, same seed -> same molecule '
        '(repeated and interleaved construct-and-sample in one process and across processes); non-trivial = >= 1 step')
ASSUMPTIONS = ['the process-global Mersenne Twister is outside the model: seed reproducibility is validated on call '
               'histories, the model makes precise that the result is a function of (inputs, decision list)']
TRUSTED_EXTRA = ['random module (global RNG state) is outside the model; covered by call-history correspondence only']

MASS = {'H': 1.008, 'C': 12.011, 'N': 14.007, 'O': 15.999, 'S': 32.06, 'P': 30.974, 'F': 18.998}


def norm(k):
    return k if k[-1].isdigit() else k + '1'


def oracle(ctx, case, mol, rec):
    slim = dict(case)
    sampler = rec.get('sampler')
    if sampler is None:
        return
    # element-derived masses
    if case['all_atom'] and 'masses' not in case:
        for name, g in sampler.fragment_dict.items():
            import cgsmiles.pysmiles_utils as pu
            import pysmiles
            h = g.copy()
            try:
                with lib.quiet():
                    pu.rebuild_h_atoms(h)
            except Exception:   # noqa: BLE001
                continue
            counts = collections.Counter(d['element'] for _, d in h.nodes(data=True))
            if all(el in MASS for el in counts):
                want = sum(MASS[el] * n for el, n in counts.items())
                have = sampler.fragment_masses.get(name)
                if have is None or abs(have - want) > 0.05 * max(1, want) * 0.01 + 0.02 * sum(counts.values()):
                    ctx.fail(slim, f'mass of fragment {name} is {have}, atoms {dict(counts)} weigh {want:.3f}')
    if mol is None:
        return
    fids = {n: d['fragid'][0] for n, d in mol.nodes(data=True)}
    names = {}
    for n, d in mol.nodes(data=True):
        names.setdefault(fids[n], d.get('fragname'))
    order = sorted(names)
    masses = sampler.fragment_masses
    added = [masses[names[f]] for f in order[1:]]
    target = case['target']
    total = sum(added)
    if target > 0:
        if total < target - 1e-9:
            ctx.fail(slim, f'growth stopped at summed mass {total} < target {target}')
        if added and total - added[-1] >= target + 1e-9:
            ctx.fail(slim, f'one fragment too many: summed mass without the last one is {total - added[-1]} >= target {target}')
    elif added:
        ctx.fail(slim, f'{len(added)} fragments added for target {target} <= 0')
    # reactivities
    prn = {norm(k): v for k, v in case['poly'].items()}
    frn = {norm(k): {norm(k2): v2 for k2, v2 in v.items()} for k, v in case['fragr'].items()}
    ter = {norm(t) for t in case['terminals']}
    for a, b, d in mol.edges(data=True):
        bd = d.get('bonding')
        if not bd or fids[a] == fids[b]:
            continue
        site, partner = bd
        if prn and prn.get(site, 0) == 0:
            ctx.fail(slim, f'descriptor {site} with reactivity 0 was chosen as growth site')
        if frn.get(site) and frn[site].get(partner, 0) == 0:
            ctx.fail(slim, f'partner {partner} has conditional reactivity 0 given {site} but was chosen')
        src = a if fids[a] < fids[b] else b
        left = list(mol.nodes[src].get('bonding', []) or [])
        if partner in ter:
            # NB: later growth cannot re-add descriptors, so this is checkable on the final graph
            if left:
                ctx.fail(slim, f'atom {src} received the terminal partner {partner} but still offers {left}')
        else:
            if any(x in ter for x in left):
                ctx.fail(slim, f'atom {src} grew by {partner} (not terminal) but still offers terminal descriptors {left}')


def history(ctx):
    """same seed -> same molecule: repeated, interleaved, and in a fresh process"""
    import cgsmiles.sample as smod
    rng = ctx.rng('history')
    cases = []
    for _ in range(ctx.budget(40, 600)):
        case = gen_sampler.gen_case_wellformed(rng)
        kw = dict(polymer_reactivities=dict(case['poly']), fragment_reactivities={k: dict(v) for k, v in case['fragr'].items()},
                  terminal_bonds=list(case['terminals']), all_atom=case['all_atom'], seed=case['seed'])
        if 'masses' in case:
            kw['fragment_masses'] = dict(case['masses'])

        def once():
            with lib.quiet(), lib.time_limit(30):
                s = smod.MoleculeSampler.from_fragment_string(case['s'], **kw)
                return json.dumps(lib.dump_mol(s.sample(case['target'], start_fragment=case.get('start'))), sort_keys=True)
        try:
            first = once()
        except lib.CallTimeout:
            ctx.fail(case, f'sample(target_weight={case["target"]}) did not return within 30 s: the growth loop does not stop')
            continue
        except Exception:   # noqa: BLE001
            ctx.count('history', nontrivial=False)
            continue
        ctx.count('history', lib.stable_hash(first), sample={k: case[k] for k in ('s', 'seed', 'target')})
        try:
            # an unrelated sampler constructed and used in between
            other = gen_sampler.gen_case_wellformed(rng)
            okw = dict(polymer_reactivities=dict(other['poly']), all_atom=other['all_atom'], seed=other['seed'])
            if 'masses' in other:
                okw['fragment_masses'] = dict(other['masses'])
            try:
                with lib.quiet(), lib.time_limit(30):
                    smod.MoleculeSampler.from_fragment_string(other['s'], **okw).sample(3)
            except (Exception, lib.CallTimeout):   # noqa: BLE001
                pass
            second = once()
            third = once()
        except lib.CallTimeout:
            ctx.fail(case, 'a repeated construct-and-sample did not return within 30 s')
            continue
        except Exception as err:   # noqa: BLE001
            ctx.fail(case, f'repeating construct-and-sample raised {type(err).__name__}')
            continue
        if first != second or first != third:
            ctx.fail(case, 'constructing a sampler with the same seed and sampling gives a different molecule the second time')
        cases.append((case, kw, first))
    # a fresh process
    script = r'''
import sys, json
sys.path.insert(0, sys.argv[1]); sys.path.insert(1, sys.argv[2])
import lib
import cgsmiles.sample as smod
out = []
for line in sys.stdin:
    c = json.loads(line)
    try:
        with lib.quiet():
            s = smod.MoleculeSampler.from_fragment_string(c['s'], **c['kw'])
            out.append(json.dumps(lib.dump_mol(s.sample(c['target'], start_fragment=c.get('start'))), sort_keys=True))
    except Exception as e:
        out.append('ERR')
print(json.dumps(out))
'''
    sub = cases[: (25 if ctx.tier == 'quick' else 150)]
    if sub:
        # fresh processes: every case alone in the process's history order, under several string-hash seeds; the cases in
        # REVERSED order in one of them (what an earlier sampler of the process left behind must not matter)
        for hs, rev in (('12345', False), ('1', False), ('777', True)):
            order = list(reversed(sub)) if rev else list(sub)
            payload = '\n'.join(json.dumps({'s': c['s'], 'kw': kw, 'target': c['target'], 'start': c.get('start')}) for c, kw, _ in order) + '\n'
            env = dict(os.environ, PBR_VERSION='0', PYTHONHASHSEED=hs)
            p = subprocess.run([sys.executable, '-W', 'ignore', '-c', script, lib.REPO, os.path.join(lib.VERIF, 'harness')],
                               input=payload, capture_output=True, text=True, env=env, timeout=900)
            if p.returncode != 0:
                raise RuntimeError('sampler subprocess failed: ' + p.stderr[-300:])
            res = json.loads(p.stdout.strip().split('\n')[-1])
            for (c, kw, first), r in zip(order, res):
                ctx.count('history-process', lib.stable_hash([r, hs]))
                if r != first:
                    ctx.fail(c, f'the same seed gives a different molecule in a fresh process (PYTHONHASHSEED={hs}'
                                f'{", samplers constructed in another order" if rev else ""})')


def run(ctx):
    gen_sampler.sampler_suite(ctx, 'sampler', ctx.budget(500, 10000), oracle=oracle)
    history(ctx)


def corpus_case(ctx, payload):
    gen_sampler.run_sampler_case(ctx, 'corpus', payload['case'], oracle=oracle)


def replay(payload):
    import check
    ctx = check.Ctx(PROP, 'quick', 0, oracle_only=True)
    gen_sampler.run_sampler_case(ctx, 'replay', payload['case'], oracle=oracle, compare=False)
    for c, what, _ in ctx.failures:
        print('FAILS:', what)
    print('input:', payload['case'])
    return 1 if ctx.failures else 0


def finding_still_fails(f):
    return False
