"""
C09 — every atom of an atomistic result has a complete, standard valence.
"""
import gen_mol
import gen_sampler
import lib
import suites

PROP = 'C09'
LEAN_TARGETS = ['CGV.Props.C09', 'CGV.Props.C09Step']
RULE = ('all-atom resolutions of fragmented molecules, of ambiguous/surplus-descriptor descriptions (polymers, rings of '
        'identical units, grafts), of shared-atom descriptions, and all-atom sampler outputs; each resolution step '
        'executed by implementation and Lean model (exact dump incl. hydrogens and their inherited attributes); oracle: '
        'per-atom valence from an independent small valence table, one neighbour per hydrogen, inherited membership; '
        'non-trivial = at least one hydrogen added')
ASSUMPTIONS = ['bond orders inside aromatic rings are those pysmiles.correct_aromatic_rings returns (contract A2)']

# independent of pysmiles: the usual valences of the organic subset (element, charge) -> allowed valences
VALENCES = {('C', 0): [4], ('N', 0): [3, 5], ('O', 0): [2], ('S', 0): [2, 4, 6], ('P', 0): [3, 5], ('F', 0): [1],
            ('Cl', 0): [1, 3, 5, 7], ('Br', 0): [1, 3, 5, 7], ('N', 1): [4], ('O', -1): [1], ('O', 1): [3],
            ('N', -1): [2], ('C', -1): [3], ('C', 1): [3], ('S', -1): [1, 3, 5], ('B', 0): [3], ('I', 0): [1, 3, 5, 7]}


def check_valence(ctx, case, fine, where, explicit_h_expected=None):
    for n, d in fine.nodes(data=True):
        el = d.get('element')
        if el == 'H':
            nbrs = list(fine[n])
            if d.get('single_h_frag'):
                # a fragment that is one hydrogen carries its own membership; it is still a hydrogen: one bond at most
                if len(nbrs) > 1:
                    ctx.fail(suites.slim(case), f'{where}: hydrogen {n} (a one-atom fragment) has {len(nbrs)} neighbours')
                continue
            if len(nbrs) != 1:
                ctx.fail(suites.slim(case), f'{where}: hydrogen {n} has {len(nbrs)} neighbours')
                continue
            p = fine.nodes[nbrs[0]]
            if fine.nodes[nbrs[0]].get('element') == 'H':
                continue
            for key in ('fragid', 'fragname', 'weight'):
                if 'mapping' in d:      # an explicitly written hydrogen keeps what it was given
                    continue
                if d.get(key) != p.get(key):
                    ctx.fail(suites.slim(case), f'{where}: hydrogen {n} has {key}={d.get(key)!r}, its atom {nbrs[0]} has {p.get(key)!r}')
            continue
        vals = VALENCES.get((el, d.get('charge', 0)))
        if vals is None:
            continue
        heavy = sum(fine.edges[n, m].get('order', 1) for m in fine[n] if fine.nodes[m].get('element') != 'H')
        hyd = sum(1 for m in fine[n] if fine.nodes[m].get('element') == 'H')
        if heavy > max(vals):
            continue          # the property's guard: bonds do not fit within the usual valence
        if heavy != int(heavy):
            continue          # half-integral sums only occur for unresolved aromatic atoms
        target = min(v for v in vals if v >= heavy)
        # explicitly written hydrogens are kept; they can exceed the minimum only if written
        written = sum(1 for m in fine[n] if fine.nodes[m].get('element') == 'H' and 'mapping' in fine.nodes[m])
        if heavy + hyd != target and not (written and heavy + hyd in vals):
            ctx.fail(suites.slim(case), f'{where}: {el}{n} (charge {d.get("charge", 0)}) has bond-order sum {heavy} to heavy '
                                        f'atoms and {hyd} hydrogens; smallest fitting valence is {target}')


def oracle(ctx, case, steps, ctor_err):
    if steps is None:
        return
    for st in steps:
        if st['result'] == 'ok' and st['all_atom']:
            check_valence(ctx, case, st['fine_graph'], f'level {st["level"]}')
            ctx.feature('hydrogens', sum(1 for _, d in st['fine_graph'].nodes(data=True) if d.get('element') == 'H'))


def ez_unit_case(rng):
    """units whose cis/trans mark stands directly in front of the closing descriptor ('[<]O/C=C/[>]'): the mark's second
    end lies in the NEXT unit; every atom of every unit keeps exactly its own hydrogens"""
    heads = ['O', 'N(C)', 'C(F)(F)', 'S', 'C', 'C(C)', 'N']
    if rng.random() < 0.5:
        n = rng.randint(2, 4)
        u = rng.choice(heads)
        s = '{[#U]|%d}.{#U=[<]%s/C=C/[>]}' % (n, u)
    else:
        mid = rng.choice(heads)
        s = '{[#A][#B][#C]}.{#A=%s[$],#B=[$]%s/C=C/[$],#C=[$]/C=C/%s}' % (rng.choice(['CC', 'OC', 'C']), mid, rng.choice(['C', 'CC', 'Cl']))
    return {'kind': 'ez-units', 's': s, 'all_atom': True, 'legacy': True}


def ion_case(rng):
    """molecular ions and charged single atoms that are not bonded to anything (zero-order connection, or a descriptor
    that stays unused): they get the hydrogens their charge state asks for, like every other atom"""
    ion = rng.choice(['[NH4+]', '[OH3+]', '[Cl-]', '[Na+]', '[F-]', '[$][O-]', '[$][NH3+]', '[$][S-]'])
    body = rng.choice(['{[#P]|2.[#ION]}.{#P=[$]COC[$],#ION=%s}', '{[#AC].[#ION]}.{#AC=CC(=O)[O-],#ION=%s}',
                       '{[#ION].[#P][#P]}.{#P=[>]CC[<],#ION=%s}', '{[#AA]|3}.{#AA=[>]CC[<]C(=O)[O-].%s}',
                       '{[#W].[#ION].[#W]}.{#W=O,#ION=%s}'])
    if '[$]' in ion and '#AA=' in body:
        ion = '[NH4+]'
    return {'kind': 'ions', 's': body % ion, 'all_atom': True, 'legacy': True}


def prime(ctx=None):
    # the helpers behind the guarantee are public and get called on plain molecule graphs as well (masses of molecules
    # that never saw a resolver): such a call earlier in the process must not change what later molecules get
    try:
        import pysmiles
        from cgsmiles.pysmiles_utils import compute_mass, rebuild_h_atoms
        with lib.quiet():
            compute_mass(pysmiles.read_smiles('CCO'))
            rebuild_h_atoms(pysmiles.read_smiles('c1ccccc1N'))
        if ctx is not None:
            ctx.feature('plain-graph-helper-calls-first')
    except Exception:    # noqa: BLE001
        pass


def run(ctx):
    prime(ctx)
    rng = ctx.rng('resolve')
    for i in range(ctx.budget(450, 8000)):
        if ctx.out_of_time():
            break
        r = i % 3
        if i % 9 == 4:
            # several fragment levels: the all-atom level is the LAST of two or three resolution steps
            import gen_levels
            case = gen_levels.hier_case(rng)
            ctx.feature('multi-level')
        elif i % 9 == 7:
            # units with fewer descriptors than neighbours, among them a single explicit hydrogen with one descriptor
            from props import c03
            case = c03.scarce_case(rng)
            ctx.feature('hydrogen-unit')
        elif i % 9 == 1:
            case = ez_unit_case(rng)
            ctx.feature('ez-mark-before-closing-descriptor')
        elif i % 9 == 2:
            case = ion_case(rng)
            ctx.feature('unbonded-ion')
        elif r == 0:
            case = gen_mol.cut_case(rng, share_p=0.0, anno_p=rng.choice([0, 0.3]))
        elif r == 1:
            case = gen_mol.ambiguous_case(rng)
            case['all_atom'] = True
            case['s'] = case['s'] if case.get('all_atom') else case['s']
        else:
            case = gen_mol.polymer_case(rng)
        suites.run_resolve_case(ctx, 'resolve', case, oracle=oracle)
    gen_sampler.sampler_suite(ctx, 'sampler-aa', ctx.budget(60, 1500), all_atom_only=True,
                              oracle=lambda c, case, mol, s: check_valence(c, case, mol, 'sample') if mol is not None else None)


def corpus_case(ctx, payload):
    case = payload.get('case', {})
    if isinstance(case, dict) and 's' in case and case.get('kind') != 'compat':
        suites.run_resolve_case(ctx, 'corpus', case, oracle=oracle)


def replay(payload):
    import check
    ctx = check.Ctx(PROP, 'quick', 0)
    case = payload['case']
    prime()
    if case.get('kind') == 'sampler':
        gen_sampler.run_sampler_case(ctx, 'replay', case, oracle=lambda c, cs, mol, s: check_valence(c, cs, mol, 'sample') if mol is not None else None, compare=False)
    else:
        suites.run_resolve_case(ctx, 'replay', case, oracle=oracle, compare=False)
    for c, what, _ in ctx.failures:
        print('FAILS:', what)
    print('input:', case.get('s'))
    return 1 if ctx.failures else 0


def finding_still_fails(f):
    return False
