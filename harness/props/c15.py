"""
C15 — stereo information survives fragmentation and renumbering.
"""
import networkx as nx

import gen_stereo
import impl
import lib
import suites

PROP = 'C15'
LEAN_TARGETS = ['CGV.Props.C15']
RULE = ('molecules with one stereo double bond (both geometries, 0-2 further substituents, spacer chains) and labelled '
        'stereocentres, written as one fragment, cut at the double bond, or cut at single bonds; both orders of the '
        'fragments in the base graph; every resolution executed by implementation and Lean model (exact dump incl. the '
        'ez_isomer tuples after renumbering); oracle: cis/trans class of the marked substituent pair identified by its '
        'elements = the generator\'s geometry; every stored tuple is a path substituent-atom=atom-substituent of the '
        'returned molecule; chirality labels on the atom with the expected neighbourhood; non-trivial = cut descriptions')
ASSUMPTIONS = ['pysmiles._annotate_ez_isomers / _interpret_cis_trans_tokens are modelled external (token table, index '
               'comparisons); open finding E1: the class depends on the order in which the base graph lists the fragments']


def oracle(ctx, case, steps, ctor_err):
    if case.get('kind') == 'stereo-malformed':
        return
    slim = dict(case)
    if steps is None:
        ctx.fail(slim, f'stereo description rejected while reading: {ctor_err[1]}')
        return
    st = steps[-1]
    if st['result'] != 'ok':
        ctx.fail(slim, f'stereo description rejected: {st["result"]} {st.get("message", "")[:60]}', finding=classify(case))
        return
    fine = st['fine_graph']
    el = lambda n: fine.nodes[n].get('element')
    # every reference is a path in the returned molecule
    found = {}
    for n, d in fine.nodes(data=True):
        for tup in d.get('ez_isomer', []) or []:
            l1, a1, a2, l2, cls = tup
            ok = (all(x in fine for x in (l1, a1, a2, l2)) and fine.has_edge(l1, a1) and fine.has_edge(a1, a2) and
                  fine.has_edge(a2, l2) and fine.edges[a1, a2].get('order') == 2 and cls in ('cis', 'trans') and l1 == n)
            if not ok:
                ctx.fail(slim, f'stereo annotation {tup} on node {n} does not describe a path substituent-atom=atom-substituent of the molecule')
                return
            found.setdefault((el(l1), el(l2)), set()).add(cls)
        if 'ez_isomer_class' in d:
            ctx.fail(slim, f'slash mark left on node {n} of the returned molecule')
            return
    for a, b, cls in case.get('expected', []):
        got = found.get((a, b))
        if not got:
            ctx.fail(slim, f'no cis/trans annotation for the substituents {a},{b} in the result', finding=classify(case))
            return
        if got != {cls} or found.get((b, a)) != {cls}:
            ctx.fail(slim, f'substituents {a},{b} are {cls} in the molecule that was written, the result says {sorted(got)}',
                     finding=classify(case))
            return
    if len(found) != 2 * len(case.get('expected', [])):
        ctx.fail(slim, f'annotations for {sorted(found)} but the molecule has only the pairs {case.get("expected")}')
        return
    # chirality labels
    labelled = [(n, d['chiral']) for n, d in fine.nodes(data=True) if 'chiral' in d]
    want = sorted((l, tuple(nb)) for l, nb in case.get('labels', []))
    have = []
    for n, lab in labelled:
        nb = sorted(el(m) for m in fine[n] if el(m) not in ('C', 'H'))
        have.append((lab, tuple(nb)))
    if sorted(have) != want or any(el(n) != 'C' for n, _ in labelled):
        ctx.fail(slim, f'chirality labels in the result {sorted(have)} (label, hetero neighbours), written {want}')


def found_pairs(g):
    out = {}
    for n, d in g.nodes(data=True):
        for tup in d.get('ez_isomer', []) or []:
            l1, a1, a2, l2, cls = tup
            out.setdefault((g.nodes[l1].get('element'), g.nodes[l2].get('element')), set()).add(cls)
    return out


def diene_case(rng):
    """a branched conjugated diene 'X/C=C(/Y)\\C=C/Z' — the marked branch written first, the marked chain last; the mark
    between the two double bonds serves both of them.  As one fragment, cut at the first or at the second double bond
    (text split in place, fragments in writing order).  The geometry is the one pysmiles reads from the uncut SMILES
    (contract P0); mark combinations pysmiles calls conflicting are not generated."""
    import pysmiles
    while True:
        x, y, z = rng.sample(['F', 'Cl', 'Br', 'I'], 3)
        m = [rng.choice('/\\') for _ in range(4)]
        plain = f'{x}{m[0]}C=C({m[1]}{y}){m[2]}C=C{m[3]}{z}'
        try:
            with lib.quiet():
                ref = found_pairs(pysmiles.read_smiles(plain, explicit_hydrogen=True))
        except ValueError:
            continue
        break
    cut = rng.choice(['none', 'first', 'second', 'thioether', 'thioether'])
    if cut == 'thioether':
        # an aryl thioether in front of the marked double bond ('Sc…': an upper-case atom directly followed by a lower-case
        # one), uncut or with the methyl group cut off
        plain = 'CSc1ccc(cc1)%sC=C%s%s' % (m[0], m[3], x)
        with lib.quiet():
            ref = found_pairs(pysmiles.read_smiles(plain, explicit_hydrogen=True))
        s = rng.choice(['{[#A]}.{#A=%s}' % plain, '{[#A][#B]}.{#A=C[$],#B=[$]%s}' % plain[1:]])
        return {'kind': 'stereo-diene', 's': s, 'plain': plain, 'cuts': [cut], 'all_atom': True, 'legacy': True,
                'pairs': sorted([a, b, sorted(c)[0]] for (a, b), c in ref.items())}
    if cut == 'none':
        s = '{[#A]}.{#A=%s}' % plain
    elif cut == 'first':
        s = '{[#A]=[#B]}.{#A=%s%sC=[$],#B=[$]=C(%s%s)%sC=C%s%s}' % (x, m[0], m[1], y, m[2], m[3], z)
    else:
        s = '{[#A]=[#B]}.{#A=%s%sC=C(%s%s)%sC=[$],#B=[$]=C%s%s}' % (x, m[0], m[1], y, m[2], m[3], z)
    return {'kind': 'stereo-diene', 's': s, 'plain': plain, 'cuts': [cut], 'all_atom': True, 'legacy': True,
            'pairs': sorted([a, b, sorted(c)[0]] for (a, b), c in ref.items())}


def diene_oracle(ctx, case, steps, ctor_err):
    if steps is None or steps[-1]['result'] != 'ok':
        ctx.fail(dict(case), 'branched conjugated diene rejected')
        return
    got = sorted([a, b, sorted(c)[0] if len(c) == 1 else sorted(c)] for (a, b), c in found_pairs(steps[-1]['fine_graph']).items())
    if got != case['pairs']:
        diff = [p for p in case['pairs'] if p not in got][:2]
        ctx.fail(dict(case), f'{case["plain"]}: cis/trans relations differ from the molecule that was written — e.g. {diff} expected, '
                             f'result has {[p for p in got if p[:2] in [d[:2] for d in diff]]}')


def shared_case(rng):
    """a marked double bond next to a shared ('!') atom: the shared atom is an anchor of the double bond (V…), a marked
    substituent (R3) or further away (R1, R2); the fragment holding the other copy is listed after (AB) or before (BA) the
    one with the marks.  The geometry is the one pysmiles reads from the uncut SMILES (contract P0).  Class E3 (open
    finding): the atom that carries a slash mark is the copy that squash_atoms removes (BA), or the shared anchor is the
    first atom of its fragment with its marked substituent in a branch (V1)."""
    import pysmiles
    x, y, z = rng.sample(['F', 'Cl', 'Br', 'I'], 3)
    m, n = rng.choice('/\\'), rng.choice('/\\')
    fams = {
        'V1': (f'C({m}{x})({y})=C{n}{z}', f'[!]C({m}{x})=C{n}{z}', f'[!]C{y}'),
        'V1b': (f'{x}{m}C({y})=C{n}{z}', f'{x}{m}C[!]=C{n}{z}', f'[!]C{y}'),
        'V2': (f'{x}{m}C=C({y}){n}{z}', f'{x}{m}C=C[!]{n}{z}', f'[!]C{y}'),
        'V2b': (f'{x}{m}C=C({n}{z}){y}', f'{x}{m}C=C[!]{n}{z}', f'C[!]{y}'),
        'R1': (f'{x}{m}C=C{n}C({z})C{y}', f'{x}{m}C=C{n}C({z})C[!]', f'[!]C{y}'),
        'R2': (f'{y}CC({z}){m}C=C{n}{x}', f'[!]CC({z}){m}C=C{n}{x}', f'{y}C[!]'),
        'R3': (f'{x}{m}C=C{n}C({y}){z}', f'{x}{m}C=C{n}C[!]{z}', f'[!]C{y}'),
    }
    fam = rng.choice(sorted(fams))
    order = rng.choice(['AB', 'BA'])
    plain, a, b = fams[fam]
    with lib.quiet():
        ref = found_pairs(pysmiles.read_smiles(plain, explicit_hydrogen=True))
    base = '{[#A][#B]}' if order == 'AB' else '{[#B][#A]}'
    return {'kind': 'stereo-shared', 's': '%s.{#A=%s,#B=%s}' % (base, a, b), 'plain': plain, 'cuts': ['shared-' + fam + '-' + order],
            'all_atom': True, 'legacy': True, 'e3': fam == 'V1' or (order == 'BA' and fam not in ('R1', 'R2')),
            'pairs': sorted([p, q, sorted(c)[0]] for (p, q), c in ref.items())}


def listed_case(rng):
    """three levels, the base graph handed over as a graph object whose nodes were put in in another order than their
    keys (`graph-reinserted`), the cut at the single bond between a marked substituent and the first written atom of the
    double bond, fragments in writing order (seeded change C15-12: without the renumbering after every level the atoms
    follow the listing order of the caller's graph and cis/trans flips).  Geometry = pysmiles' reading of the uncut
    SMILES (contract P0)."""
    import pysmiles
    x = rng.choice(['C', 'CC', 'F', 'Cl', 'OC'])
    z = rng.choice(['C', 'Cl', 'Br', 'CO', 'CC(F)Cl'])
    m, n = rng.choice('/\\'), rng.choice('/\\')
    plain = f'{x}{m}C=C{n}{z}'
    with lib.quiet():
        ref = found_pairs(pysmiles.read_smiles(plain, explicit_hydrogen=True))
    mid = rng.choice(['{#P=[#A][$],#Q=[$][#B]}', '{#P=[#A][>],#Q=[<][#B]}'])
    s = '{[#P][#Q]}.%s.{#A=%s%s[$],#B=[$]%sC=C%s%s}' % (mid, x, m, m, n, z)
    return {'kind': 'stereo-listed', 's': s, 'plain': plain, 'cuts': ['listed'], 'all_atom': True, 'legacy': True, 'e3': False,
            'ctor': 'graph-reinserted', 'how': 'on three levels with the base graph handed over as a graph object',
            'pairs': sorted([p, q, sorted(c)[0]] for (p, q), c in ref.items())}


def shared_oracle(ctx, case, steps, ctor_err):
    fid = 'E3' if case.get('e3') else None
    if steps is None or steps[-1]['result'] != 'ok':
        ctx.fail(dict(case), f'{case["plain"]} written {case.get("how", "with a shared atom")} is rejected', finding=fid)
        return
    got = sorted([a, b, sorted(c)[0] if len(c) == 1 else sorted(c)] for (a, b), c in found_pairs(steps[-1]['fine_graph']).items())
    if got != case['pairs']:
        ctx.fail(dict(case), f'{case["plain"]} written {case.get("how", "with a shared atom")}: cis/trans relations {got}, the molecule that was written has '
                             f'{case["pairs"]}', finding=fid)


def oracle_for(case):
    return {'stereo-diene': diene_oracle, 'stereo-shared': shared_oracle, 'stereo-listed': shared_oracle}.get(case.get('kind'), oracle)


def classify(case):
    """E1: a double bond is cut and the final node indices do not follow one left-to-right writing of
    it: the base graph lists its right-hand fragment first, the right-hand fragment is written
    substituent first, or a marked substituent that is cut off as its own fragment is listed on the
    other side of its atom than it was written"""
    if case.get('reversed_double') or case.get('right_ligand_first') or case.get('reversed_ligand'):
        return 'E1'
    return None


def run(ctx):
    rng = ctx.rng('stereo')
    for _ in range(ctx.budget(500, 10000)):
        if ctx.out_of_time():
            break
        long = rng.random() < 0.08
        case = gen_stereo.stereo_case(rng, long=long)
        if long:
            ctx.feature('more-than-ten-fragments')
        suites.run_resolve_case(ctx, 'stereo', case, oracle=oracle)
        ctx.feature('cuts:' + '+'.join(case['cuts']) + (':natural' if case['natural'] else ':permuted'))
        if case['labels']:
            ctx.feature('labelled-centre')
        if case['reversed_double']:
            ctx.feature('double-bond-fragments-reversed')
        if case['right_ligand_first']:
            ctx.feature('right-fragment-substituent-first')
        if case['unlabelled']:
            ctx.feature('label-shared-by-single-and-double-descriptor')
    for _ in range(ctx.budget(40, 400)):
        suites.run_resolve_case(ctx, 'stereo-malformed', gen_stereo.malformed_case(rng), oracle=None)
    rng_d = ctx.rng('diene')
    for _ in range(ctx.budget(30, 400)):
        case = diene_case(rng_d)
        suites.run_resolve_case(ctx, 'stereo-diene', case, oracle=diene_oracle)
        ctx.feature('branched-diene:' + case['cuts'][0])
    # a shared ('!') atom on or next to a marked double bond (found while reading what the round-7 sub-agents reported)
    rng_s = ctx.rng('stereo-shared')
    for _ in range(ctx.budget(40, 500)):
        case = shared_case(rng_s)
        suites.run_resolve_case(ctx, 'stereo-shared', case, oracle=shared_oracle)
        ctx.feature(case['cuts'][0] + (':E3' if case['e3'] else ''))
    # three levels through from_graph with the caller's nodes listed out of key order (seeded change C15-12)
    rng_l = ctx.rng('stereo-listed')
    for _ in range(ctx.budget(24, 300)):
        case = listed_case(rng_l)
        suites.run_resolve_case(ctx, 'stereo-listed', case, oracle=shared_oracle)
        ctx.feature('listed-three-levels')


def corpus_case(ctx, payload):
    suites.run_resolve_case(ctx, 'corpus', payload['case'], oracle=oracle_for(payload['case']))


def replay(payload):
    import check
    ctx = check.Ctx(PROP, 'quick', 0, oracle_only=True)
    case = payload['case']
    suites.run_resolve_case(ctx, 'replay', case, oracle=oracle_for(case), compare=False)
    for c, what, fid in ctx.failures:
        print('FAILS:', what, f'[{fid}]' if fid else '')
    print('input:', case.get('s'))
    return 1 if ctx.failures else 0


def finding_still_fails(f):
    import json, os, check
    path = os.path.join(lib.VERIF, f.get('witness', ''))
    if not os.path.exists(path):
        return None
    with open(path) as fh:
        payload = json.load(fh)
    ctx = check.Ctx(PROP, 'quick', 0, oracle_only=True)
    suites.run_resolve_case(ctx, 'finding', payload['case'], oracle=oracle_for(payload['case']), compare=False)
    return bool(ctx.failures)
